import NeumannModel.Common.Proto
import NeumannModel.Common.Crc32
import NeumannModel.Durable.Model
import NeumannModel.Durable.CkptFs
/-
  Line-protocol driver for the durable-store model (C02).

  bytes-facing (real WAL bytes; bitcode opaque — the harness `bind`s each payload to the entry
  the real `bitcode::deserialize` returned for it):
    crc <hex>                          -> decimal CRC-32
    parse <hex file>                   -> <n> <clean|torn|bad_crc|undecodable> <payload hex,…>
    valid_len <hex file>               -> length kept by `TensorWal::open`
    undec <hex payload>                -> ok        (mark payload as not deserializable)
    bind <hex payload> <entry>         -> ok        entry = set:K:B:E | del:K | eset:ID:V | edel:ID |
                                                    ecreate:K:ID | eremove:K | txb:T | txc:T | txa:T | ckpt:ID
    entries <hex file>                 -> entries `from_entries` receives, and the end condition
    recover <snap|none> <hex file>     -> ok <image> | err checksum
    resume <snap|none> <hex file>      -> ok <repaired len> <image> | err checksum   (becomes the live store)
    raw_open <hex> / raw_append <maxsize|0> <hex record> / raw_recover <snap|none>   (log of real record bytes)
  live-facing (records are kept with a private encoding; only counts are compared):
    open <immediate|manual|batched:N> <maxsize|0> [bloom]     (bloom: `open_durable_with_bloom`)
    put K B E / del K / sync / get K / exists K / image         (through the Bloom filter when one is on)
    peek put K B E / peek del K        -> records the operation would log now
    limput K B E <max> <cur> <s1,s2,…> -> `auto_rotate = false`, `max_size_bytes = max`, the log file is `cur` bytes
    limdel K <max> <cur> <s1,…>           long, the operation's records take s1,s2,… bytes (frame included):
                                          ok|notfound|err <records appended> …   (`Wal.appendLim`, `stepF`)
    rot <m> <live: none|some:HEX> <segs: -|n:HEX;n:HEX…>   -> the directory after each file-system call of
                                          `rotate` (`LogDir.rotateSteps`), states separated by `|`, each `<live> <segs>`
    brecover <snap|none> <hex file>    -> like recover, through a filter rebuilt from scan (`recover_with_bloom`)
    bresume <snap|none> <hex file>     -> like resume; the live store carries the rebuilt filter
    ckpt_sync / ckpt_snapshot <name> / ckpt_marker <id> / ckpt_truncate   (the four checkpoint steps)
  the files of the snapshot step (`CkptFs.lean`; a file is `none` or `some:HEX`):
    fs_set <snap> <tmp>                -> ok        (the directory as a crash left it)
    fs_show                            -> <snap> <tmp>
    fs_bind <HEX> <name>               -> ok        (the real `load` reads these bytes as the store the model
                                                    registered under <name>; unbound bytes: `load` rejects them)
    fs_recover <snap> <hex log>        -> ok <image> | err snapshot | err checksum      (`recoverFs`)
    fs_resume <hex log>                -> like resume, from the directory set by fs_set  (`recoverFs`)
    fs_ckpt <keep 0|1> <commit 0|1> <name> <HEX image> <id> <cuts j,j,…|->
                                       -> the crash states of `FSys.ckptStates` (serializer = the given image):
                                          log fsynced; temp file after j image bytes for each cut j (0 = just
                                          opened; image length = complete, not renamed); renamed; marker
                                          appended; log truncated — each `<snap> <tmp> <records in the log>`,
                                          separated by ` | `.  commit 1: the checkpoint runs to its end
                                          (`FSys.checkpoint`), <name> is registered and bound to the installed file
-/
open Neumann Neumann.Proto Neumann.FramedLog Neumann.Durable

/-- private record encoding of the live log (bitcode is opaque; only record counts matter) -/
def pEncB (b : Bytes) : Bytes := b.length :: b
def pEnc : Entry → Bytes
  | .metaSet k v => 0 :: pEncB k ++ pEncB v.body ++ (match v.emb with | none => [0] | some e => 1 :: e)
  | .metaDel k => 1 :: k
  | .embSet id vec => 2 :: id :: vec
  | .embDel id => [3, id]
  | .entCreate k id => 4 :: id :: k
  | .entRemove k => 5 :: k
  | .txBegin t => [6, t]
  | .txCommit t => [7, t]
  | .txAbort t => [8, t]
  | .checkpoint id => [9, id]

structure DState where
  table : List (Bytes × Entry) := []
  undec : List Bytes := []
  snaps : List (String × Store) := []
  sys : Sys := ⟨.immediate, Wal.openOn [], Store.empty, none⟩
  maxSize : Nat := 0
  rotated : Nat := 0
  raw : Wal := Wal.openOn []      -- a log made of the real record bytes (rotation stream)
  added : Option (List Bytes) := none   -- keys given to the Bloom filter (`none`: no filter)
  fs : SnapFs := SnapFs.empty           -- the files of the snapshot step
  sbind : List (Bytes × String) := []   -- snapshot-file bytes the real `load` accepts -> registered store

def crcF : Bytes → Nat := Neumann.Crc32.crc32

def showEnd : PEnd → String
  | .clean => "clean" | .torn => "torn" | .badCrc => "bad_crc" | .undecodable => "undecodable"

def showOB : Option Bytes → String
  | none => "none" | some b => hex b

def showEntry : Entry → String
  | .metaSet k v => s!"set:{hex k}:{hex v.body}:{showOB v.emb}"
  | .metaDel k => s!"del:{hex k}"
  | .embSet id v => s!"eset:{id}:{hex v}"
  | .embDel id => s!"edel:{id}"
  | .entCreate k id => s!"ecreate:{hex k}:{id}"
  | .entRemove k => s!"eremove:{hex k}"
  | .txBegin t => s!"txb:{t}" | .txCommit t => s!"txc:{t}" | .txAbort t => s!"txa:{t}"
  | .checkpoint id => s!"ckpt:{id}"

def showEntries (es : List Entry) : String :=
  if es.isEmpty then "-" else ",".intercalate (es.map showEntry)

def parseOB (s : String) : Option (Option Bytes) :=
  if s = "none" then some none else (unhex s).map some

def parseEntry (s : String) : Option Entry :=
  match s.splitOn ":" with
  | ["set", k, b, e] => do
      let k ← unhex k; let b ← unhex b; let e ← parseOB e
      pure (.metaSet k ⟨b, e⟩)
  | ["del", k] => (unhex k).map .metaDel
  | ["eset", id, v] => do pure (.embSet (← id.toNat?) (← unhex v))
  | ["edel", id] => id.toNat?.map .embDel
  | ["ecreate", k, id] => do pure (.entCreate (← unhex k) (← id.toNat?))
  | ["eremove", k] => (unhex k).map .entRemove
  | ["txb", t] => t.toNat?.map .txBegin
  | ["txc", t] => t.toNat?.map .txCommit
  | ["txa", t] => t.toNat?.map .txAbort
  | ["ckpt", id] => id.toNat?.map .checkpoint
  | _ => none

def showVal (v : Val) : String := s!"{hex v.body}:{showOB v.emb}"

/-- scan + get image: `K=B:E` for readable keys, `!K` for keys listed by scan that `get` rejects -/
def image (s : Store) : String :=
  let keys := (scanKeys s).eraseDups
  let items := keys.map fun k =>
    match get s k with
    | some v => s!"{hex k}={showVal v}"
    | none => s!"!{hex k}"
  if items.isEmpty then "-" else " ".intercalate items

/-- the same image through a Bloom filter without false positives (the strictest filter) -/
def imageB (b : BStore) : String :=
  let keys := (scanKeys b.store).eraseDups
  let items := keys.map fun k =>
    match b.get (fun _ => false) k with
    | some v => s!"{hex k}={showVal v}"
    | none => s!"!{hex k}"
  if items.isEmpty then "-" else " ".intercalate items

def decOf (st : DState) (p : Bytes) : Option Entry :=
  if st.undec.contains p then none else aget st.table p

def parseMode (s : String) : Option SyncMode :=
  if s = "immediate" then some .immediate
  else if s = "manual" then some .manual
  else match s.splitOn ":" with
    | ["batched", n] => n.toNat?.map .batched
    | _ => none

/-- records (count) inside a byte prefix of the live log -/
def recCount (bs : Bytes) : Nat := (parse crcF (fun _ => true) bs).1.length

def walInfo (st : DState) : String :=
  let w := st.sys.wal
  s!"synced={recCount (w.file.take w.syncedLen)} total={recCount w.file} rotated={st.rotated}"

/-- append the records of one operation to the live log, rotating as `write_entry_no_sync` does -/
def logLive (st : DState) (es : List Entry) : DState :=
  es.foldl (fun st e =>
    let rb := encodeRec crcF (pEnc e)
    if st.maxSize > 0 ∧ st.sys.wal.file.length + rb.length > st.maxSize then
      { st with sys := { st.sys with wal := Wal.append st.sys.mode (Wal.rotate st.sys.wal).1 rb },
                rotated := st.rotated + 1 }
    else { st with sys := { st.sys with wal := Wal.append st.sys.mode st.sys.wal rb } }) st

/-- `get` of the live store, through the filter when one is on -/
def liveGet (st : DState) (k : Bytes) : Option Val :=
  match st.added with
  | some a => BStore.get (fun _ => false) ⟨st.sys.mem, a⟩ k
  | none => get st.sys.mem k

def liveExists (st : DState) (k : Bytes) : Bool :=
  match st.added with
  | some a => BStore.exists_ (fun _ => false) ⟨st.sys.mem, a⟩ k
  | none => exists_ st.sys.mem k

def liveImage (st : DState) : String :=
  match st.added with
  | some a => imageB ⟨st.sys.mem, a⟩
  | none => image st.sys.mem

def resumeWith (st : DState) (sn : String) (b : Bytes) (bloom : Bool) : DState × String :=
  let snap := if sn = "none" then none else aget st.snaps sn
  match recover crcF (decOf st) snap b with
  | .ok mem =>
      let es := (entriesOf crcF (decOf st) (openRepair b)).1
      let f := encodeAll crcF (es.map pEnc)
      let w : Wal := { file := f, syncedLen := f.length, pending := 0 }
      let sy : Sys := { st.sys with mem := mem, snap := snap, wal := w }
      let ad : Option (List Bytes) := if bloom then some (scanKeys mem) else none
      let st2 : DState := { st with sys := sy, rotated := 0, raw := Wal.openOn b, added := ad }
      (st2, s!"ok {(openRepair b).length} " ++ liveImage st2)
  | .error _ => (st, "err checksum")

def showFile : Option Bytes → String
  | none => "none" | some b => "some:" ++ hex b

def showFs (d : SnapFs) : String := showFile d.snap ++ " " ++ showFile d.tmp

/-- `load` as the harness has reported it: the bound byte strings, nothing else -/
def deOf (st : DState) (b : Bytes) : Option Store := (aget st.sbind b).bind (aget st.snaps ·)

def showFRec : Except FRecErr Store → String
  | .ok mem => "ok " ++ image mem
  | .error .snapshot => "err snapshot"
  | .error .checksum => "err checksum"

/-- index in `SnapFs.saveCrashTmp` of the state "j bytes of the image are in the temporary file" -/
def tmpStateIdx (hl j : Nat) : Nat := if j ≤ hl then j else j + 1

def showDir (d : LogDir) : String :=
  let lv := match d.live with | none => "none" | some b => "some:" ++ hex b
  let sg := if d.segs.isEmpty then "-" else ";".intercalate (d.segs.map fun p => s!"{p.1}:{hex p.2}")
  lv ++ " " ++ sg

def parseLive (s : String) : Option (Option Bytes) :=
  if s = "none" then some none
  else match s.splitOn ":" with
    | ["some", h] => (unhex h).map some
    | _ => none

def parseSegs (s : String) : Option (List (Nat × Bytes)) :=
  if s = "-" then some [] else
  (s.splitOn ";").mapM fun p =>
    match p.splitOn ":" with
    | [n, h] => do pure ((← n.toNat?), (← unhex h))
    | _ => none

/-- how many of the records (given by their sizes) `Wal.appendLim` accepts, one after the other -/
def limAccepted (mode : SyncMode) (maxSize : Nat) (cur : Nat) : List Nat → Nat
  | [] => 0
  | sz :: r =>
      match Wal.appendLim mode maxSize ⟨List.replicate cur 0, 0, 0⟩ (List.replicate sz 0) with
      | none => 0
      | some w => 1 + limAccepted mode maxSize w.file.length r

def parseSizes (s : String) : Option (List Nat) :=
  if s = "-" then some [] else (s.splitOn ",").mapM (·.toNat?)

/-- one operation under the size rule: `stepF` with the number of records `Wal.appendLim` accepts -/
def limOp (st : DState) (o : Op) (mx cur : Nat) (sizes : List Nat) (okWord : String) : DState × String :=
  let g := (step st.sys.mem o).1
  if sizes.length ≠ g.length then (st, s!"bad-sizes model-records={g.length}") else
  let acc := limAccepted st.sys.mode mx cur sizes
  let r := stepF st.sys.mem o (some acc)
  let st1 := logLive st r.1
  let ad := match o with
    | .put k _ => st1.added.map (k :: ·)
    | .delete _ => st1.added
  let st2 : DState := { st1 with sys := { st1.sys with mem := r.2.1 }, added := ad }
  (st2, (if r.2.2 then okWord else "err") ++ s!" {showEntries r.1} {walInfo st2}")

def durStep (st : DState) (line : String) : DState × String :=
  let bad := (st, "bad-op")
  match words line with
  | ["rot", m, lv, sg] => match m.toNat?, parseLive lv, parseSegs sg with
      | some m, some lv, some sg => (st, " | ".intercalate ((LogDir.rotateSteps m ⟨lv, sg⟩).map showDir))
      | _, _, _ => bad
  | ["peek", "put", k, b, e] => match unhex k, unhex b, parseOB e with
      | some k, some b, some e => (st, showEntries (putDurable st.sys.mem k ⟨b, e⟩).1)
      | _, _, _ => bad
  | ["peek", "del", k] => match unhex k with
      | some k => (st, showEntries (deleteDurable st.sys.mem k).1)
      | none => bad
  | ["limput", k, b, e, mx, cur, sz] => match unhex k, unhex b, parseOB e, mx.toNat?, cur.toNat?, parseSizes sz with
      | some k, some b, some e, some mx, some cur, some sz => limOp st (.put k ⟨b, e⟩) mx cur sz "ok"
      | _, _, _, _, _, _ => bad
  | ["limdel", k, mx, cur, sz] => match unhex k, mx.toNat?, cur.toNat?, parseSizes sz with
      | some k, some mx, some cur, some sz =>
          limOp st (.delete k) mx cur sz (if (deleteDurable st.sys.mem k).2.2 then "ok" else "notfound")
      | _, _, _, _ => bad
  | ["fs_set", sn, tm] => match parseLive sn, parseLive tm with
      | some sn, some tm => ({ st with fs := ⟨sn, tm, 0⟩ }, "ok")
      | _, _ => bad
  | ["fs_show"] => (st, showFs st.fs)
  | ["fs_bind", h, name] => match unhex h with
      | some b => ({ st with sbind := aset st.sbind b name }, "ok")
      | none => bad
  | ["fs_recover", sn, h] => match parseLive sn, unhex h with
      | some sn, some b => (st, showFRec (recoverFs crcF (decOf st) (deOf st) ⟨sn, none, 0⟩ b))
      | _, _ => bad
  | ["fs_resume", h] => match unhex h with
      | some b =>
          (match recoverFs crcF (decOf st) (deOf st) st.fs b with
           | .ok mem =>
               let es := (entriesOf crcF (decOf st) (openRepair b)).1
               let f := encodeAll crcF (es.map pEnc)
               let w : Wal := { file := f, syncedLen := f.length, pending := 0 }
               let snap := (loadSnap (deOf st) st.fs).getD none
               let st2 : DState := { st with sys := { st.sys with mem := mem, snap := snap, wal := w },
                                             rotated := 0, raw := Wal.openOn b, added := none }
               (st2, s!"ok {(openRepair b).length} " ++ liveImage st2)
           | .error .snapshot => (st, "err snapshot")
           | .error .checksum => (st, "err checksum"))
      | none => bad
  | ["fs_ckpt", keep, commit, name, h, id, cuts] => match unhex h, id.toNat?, parseSizes cuts with
      | some img, some id, some cuts =>
          let keep := keep == "1"
          let fy : FSys := ⟨st.sys.mode, st.sys.wal, st.sys.mem, st.fs⟩
          let all := FSys.ckptStates crcF pEnc (fun _ => img) keep fy id
          let hl := min snapHeaderLen img.length
          let nTmp := img.length + 2
          let idxs := [0] ++ cuts.map (fun j => 1 + tmpStateIdx hl (min j img.length)) ++ [1 + nTmp, 2 + nTmp, 3 + nTmp]
          let shown := idxs.filterMap (fun i => all[i]?) |>.map (fun (f : FSys) => s!"{showFs f.fs} {recCount f.wal.file}")
          let st2 : DState :=
            if commit == "1" then
              let fin := FSys.checkpoint crcF pEnc (fun _ => img) keep fy id
              { st with sys := ⟨fin.mode, fin.wal, fin.mem, some fin.mem⟩, fs := fin.fs,
                        snaps := aset st.snaps name st.sys.mem,
                        sbind := match fin.fs.snap with
                          | some b => if b = img then aset st.sbind b name else st.sbind
                          | none => st.sbind }
            else st
          (st2, " | ".intercalate shown)
      | _, _, _ => bad
  | ["crc", h] => match unhex h with
      | some b => (st, toString (crcF b)) | none => bad
  | ["parse", h] => match unhex h with
      | some b =>
          let r := parse crcF (fun p => !st.undec.contains p) b
          (st, s!"{r.1.length} {showEnd r.2} " ++ (if r.1.isEmpty then "-" else ",".intercalate (r.1.map hex)))
      | none => bad
  | ["valid_len", h] => match unhex h with
      | some b => (st, toString (validPrefixLen b)) | none => bad
  | ["undec", h] => match unhex h with
      | some b => ({ st with undec := b :: st.undec }, "ok") | none => bad
  | ["bind", h, e] => match unhex h, parseEntry e with
      | some b, some en => ({ st with table := aset st.table b en }, "ok")
      | _, _ => bad
  | ["entries", h] => match unhex h with
      | some b =>
          let r := entriesOf crcF (decOf st) b
          (st, showEntries r.1 ++ " " ++ showEnd r.2)
      | none => bad
  | ["recover", sn, h] => match unhex h with
      | some b =>
          let snap := if sn = "none" then none else aget st.snaps sn
          (match recover crcF (decOf st) snap b with
           | .ok mem => (st, "ok " ++ image mem)
           | .error _ => (st, "err checksum"))
      | none => bad
  | ["resume", sn, h] => match unhex h with
      | some b => resumeWith st sn b false
      | none => bad
  | ["bresume", sn, h] => match unhex h with
      | some b => resumeWith st sn b true
      | none => bad
  | ["brecover", sn, h] => match unhex h with
      | some b =>
          let snap := if sn = "none" then none else aget st.snaps sn
          (match recoverBloom crcF (decOf st) snap b with
           | .ok bs => (st, "ok " ++ imageB bs)
           | .error _ => (st, "err checksum"))
      | none => bad
  | ["raw_open", h] => match unhex h with
      | some b => ({ st with raw := Wal.openOn b }, s!"len={(openRepair b).length}")
      | none => bad
  | ["raw_append", mx, h] => match mx.toNat?, unhex h with
      | some mxs, some b =>
          let w := if mxs > 0 then Wal.appendRot .immediate mxs st.raw b else Wal.append .immediate st.raw b
          let rot := decide (mxs > 0 ∧ st.raw.file.length + b.length > mxs)
          ({ st with raw := w }, s!"len={w.file.length} rotated={if rot then 1 else 0}")
      | _, _ => bad
  | ["raw_recover", sn] =>
      let snap := if sn = "none" then none else aget st.snaps sn
      (match recover crcF (decOf st) snap st.raw.file with
       | .ok mem => (st, "ok " ++ image mem)
       | .error _ => (st, "err checksum"))
  | ["open", m, mx] => match parseMode m, mx.toNat? with
      | some mode, some mxs =>
          ({ st with sys := Sys.fresh mode, maxSize := mxs, rotated := 0, added := none }, "ok")
      | _, _ => bad
  | ["open", m, mx, "bloom"] => match parseMode m, mx.toNat? with
      | some mode, some mxs =>
          ({ st with sys := Sys.fresh mode, maxSize := mxs, rotated := 0, added := some BStore.empty.added }, "ok")
      | _, _ => bad
  | ["mode", m] => match parseMode m with
      | some mode => ({ st with sys := { st.sys with mode := mode } }, "ok")
      | none => bad
  | ["put", k, b, e] => match unhex k, unhex b, parseOB e with
      | some k, some b, some e =>
          let r := putDurable st.sys.mem k ⟨b, e⟩
          let st1 := logLive st r.1
          let st2 := { st1 with sys := { st1.sys with mem := r.2 }, added := st1.added.map (k :: ·) }
          (st2, s!"ok {showEntries r.1} {walInfo st2}")
      | _, _, _ => bad
  | ["del", k] => match unhex k with
      | some k =>
          let r := deleteDurable st.sys.mem k
          let st1 := logLive st r.1
          let st2 := { st1 with sys := { st1.sys with mem := r.2.1 } }
          (st2, (if r.2.2 then "ok " else "notfound ") ++ s!"{showEntries r.1} {walInfo st2}")
      | none => bad
  | ["sync"] =>
      let st2 := { st with sys := st.sys.sync }
      (st2, "ok " ++ walInfo st2)
  | ["get", k] => match unhex k with
      | some k => (st, match liveGet st k with | some v => "some " ++ showVal v | none => "none")
      | none => bad
  | ["exists", k] => match unhex k with
      | some k => (st, if liveExists st k then "true" else "false")
      | none => bad
  | ["image"] => (st, liveImage st)
  | ["ckpt_sync"] =>
      let st2 := { st with sys := st.sys.ckptSync }
      (st2, "ok " ++ walInfo st2)
  | ["ckpt_snapshot", name] =>
      let sy := st.sys.ckptSnapshot
      ({ st with sys := sy, snaps := aset st.snaps name st.sys.mem }, "ok")
  | ["ckpt_marker", id] => match id.toNat? with
      | some id =>
          let st2 := logLive st [.checkpoint id]
          (st2, "ok " ++ walInfo st2)
      | none => bad
  | ["ckpt_truncate"] =>
      let st2 := { st with sys := st.sys.ckptTruncate }
      (st2, "ok " ++ walInfo st2)
  | _ => bad

def main : IO Unit := run durStep {}
