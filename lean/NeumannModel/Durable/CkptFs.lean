import NeumannModel.Durable.Model
/-
  C02 — the snapshot step of `checkpoint`, file-system call by file-system call.
    tensor_store/src/snapshot.rs     temp_path_for, save_v3_with_compression (File::create on
                                     `<snapshot>.tmp`, write_all header, write_all body, sync_all,
                                     rename over `<snapshot>`), load
    tensor_store/src/slab_router.rs  checkpoint (fsync log, save_to_file, marker, truncate),
                                     recover (`if path.exists() { load_from_file(path)? }`)
  `Model.lean` treats the snapshot as an `Option Store` replaced atomically.  Here the two files
  of the snapshot step are STATE: the snapshot file and the temporary file, both as bytes — and
  with them everything an interrupted checkpoint leaves behind (a temp file that is empty,
  partly written, or complete and not yet renamed).  The serializer is opaque (`ser`, `de`:
  bitcode + zstd; the harness runs the real ones).
  `SnapFs.create` is the code (`File::create`: created or TRUNCATED); `SnapFs.openKeep` is NOT
  the code (an open without `truncate(true)`) and is used by the `…_witness` theorems and by the
  driver's diagnosis only.
  Imports the durable-store model only; executable.
-/
namespace Neumann.Durable

/-- the files of the snapshot step and the write position of the handle `save_v3` holds on the
    temporary file -/
structure SnapFs where
  snap : Option Bytes      -- `<snapshot>` (`none`: no such file)
  tmp : Option Bytes       -- `<snapshot>.tmp`
  pos : Nat                -- position of the open handle (meaningless once the process is gone)
  deriving DecidableEq, Repr

/-- an empty directory -/
def SnapFs.empty : SnapFs := ⟨none, none, 0⟩

/-- `write` of `b` at position `pos` of a file holding `old`: overwrites in place, extends at the
    end, zero-fills a gap (a handle that only moves by its own writes never leaves one) -/
def writeAt (old : Bytes) (pos : Nat) (b : Bytes) : Bytes :=
  old.take pos ++ List.replicate (pos - old.length) 0 ++ b ++ old.drop (pos + b.length)

/-- `File::create(temp_path)`: the file is created, or TRUNCATED when it exists; position 0 -/
def SnapFs.create (d : SnapFs) : SnapFs := { d with tmp := some [], pos := 0 }

/-- NOT the code: `OpenOptions::new().write(true).create(true).open(temp_path)` — an existing file
    keeps its content; position 0 -/
def SnapFs.openKeep (d : SnapFs) : SnapFs := { d with tmp := some (d.tmp.getD []), pos := 0 }

/-- `file.write_all(b)` on the handle of the temporary file -/
def SnapFs.write (d : SnapFs) (b : Bytes) : SnapFs :=
  { d with tmp := some (writeAt (d.tmp.getD []) d.pos b), pos := d.pos + b.length }

/-- `std::fs::rename(temp_path, path)` -/
def SnapFs.rename (d : SnapFs) : SnapFs :=
  match d.tmp with
  | some c => { snap := some c, tmp := none, pos := 0 }
  | none => d

/-- how the temporary file is opened: `false` = the code (`create`), `true` = `openKeep` -/
def SnapFs.openTmp (keep : Bool) (d : SnapFs) : SnapFs := if keep then d.openKeep else d.create

/-- `save_v3_with_compression(path)`: create, header, body, (`sync_all`: nothing to see), rename -/
def SnapFs.save (keep : Bool) (d : SnapFs) (hdr body : Bytes) : SnapFs :=
  (((d.openTmp keep).write hdr).write body).rename

/-- every state a crash inside `save_v3_with_compression` can leave BEFORE the rename: temporary
    file just opened and any byte prefix of the header written; header written and any byte
    prefix of the body (the whole body = written and fsynced, not yet renamed) -/
def SnapFs.saveCrashTmp (keep : Bool) (d : SnapFs) (hdr body : Bytes) : List SnapFs :=
  (List.range (hdr.length + 1)).map (fun j => (d.openTmp keep).write (hdr.take j))
  ++ (List.range (body.length + 1)).map (fun j => ((d.openTmp keep).write hdr).write (body.take j))

/-- every state a crash inside `save_v3_with_compression` can leave; the last one = renamed -/
def SnapFs.saveStates (keep : Bool) (d : SnapFs) (hdr body : Bytes) : List SnapFs :=
  SnapFs.saveCrashTmp keep d hdr body ++ [SnapFs.save keep d hdr body]

/-! ### the durable store over these files -/

/-- a running durable store whose snapshot lives in real files -/
structure FSys where
  mode : SyncMode
  wal : Wal
  mem : Store
  fs : SnapFs
  deriving Repr

/-- the same store with the snapshot file replaced by what it holds (the view `Model.lean` takes) -/
def FSys.view (fy : FSys) (snap : Option Store) : Sys := ⟨fy.mode, fy.wal, fy.mem, snap⟩

/-- `SNAPSHOT` header size (`HEADER_SIZE`): the image is written with two `write_all` calls -/
def snapHeaderLen : Nat := 20

/-- every state a crash inside `SlabRouter::checkpoint(path)` can leave, in order: log fsynced;
    the states of the snapshot step (`SnapFs.saveStates`, the last of them = snapshot renamed into
    place); marker appended; log truncated.  `ser` = the image `save_v3` writes for a store. -/
def FSys.ckptStates (crc : Bytes → Nat) (enc : Entry → Bytes) (ser : Store → Bytes) (keep : Bool)
    (fy : FSys) (id : Nat) : List FSys :=
  let f1 : FSys := { fy with wal := fy.wal.sync }
  let hdr := (ser fy.mem).take snapHeaderLen
  let body := (ser fy.mem).drop snapHeaderLen
  let f2 : FSys := { f1 with fs := SnapFs.save keep fy.fs hdr body }
  let f3 : FSys := { f2 with wal := (Sys.ckptMarker crc enc (f2.view none) id).wal }
  [f1] ++ (SnapFs.saveStates keep fy.fs hdr body).map (fun d => { f1 with fs := d })
    ++ [f3, { f3 with wal := f3.wal.truncate }]

/-- `checkpoint(path)` run to its end -/
def FSys.checkpoint (crc : Bytes → Nat) (enc : Entry → Bytes) (ser : Store → Bytes) (keep : Bool)
    (fy : FSys) (id : Nat) : FSys :=
  let f2 : FSys := { fy with wal := fy.wal.sync,
                             fs := SnapFs.save keep fy.fs ((ser fy.mem).take snapHeaderLen) ((ser fy.mem).drop snapHeaderLen) }
  { f2 with wal := (Sys.ckptMarker crc enc (f2.view none) id).wal.truncate }

/-- disk contents a crash can leave of the log: any cut at or after the synced length -/
def FSys.crashFile (fy : FSys) (n : Nat) : Bytes := fy.wal.file.take (max n fy.wal.syncedLen)

/-- one durable operation (the snapshot files are not touched) -/
def FSys.op (crc : Bytes → Nat) (enc : Entry → Bytes) (fy : FSys) (o : Op) : FSys :=
  let sy := Sys.op crc enc (fy.view none) o
  { fy with wal := sy.wal, mem := sy.mem }

/-! ### recovery from the files -/

inductive FRecErr where
  | snapshot      -- `Failed to load snapshot: …`
  | checksum      -- `Failed to replay WAL: Checksum mismatch …`
  deriving DecidableEq, Repr

/-- what the snapshot file holds: `some none` = no file (recovery starts from the empty store),
    `none` = a file `load` rejects -/
def loadSnap (de : Bytes → Option Store) (d : SnapFs) : Option (Option Store) :=
  match d.snap with
  | none => some none
  | some b => (de b).map some

/-- `SlabRouter::recover(wal, cfg, Some(path))`: the snapshot file is loaded when it exists (an
    unreadable one fails the recovery), then the log is replayed; the temporary file is never
    looked at -/
def recoverFs (crc : Bytes → Nat) (dec : Bytes → Option Entry) (de : Bytes → Option Store)
    (d : SnapFs) (file : Bytes) : Except FRecErr Store :=
  match loadSnap de d with
  | none => .error .snapshot
  | some snap =>
      match recover crc dec snap file with
      | .ok r => .ok r
      | .error _ => .error .checksum

end Neumann.Durable
