import NeumannModel.Durable.Shard
import NeumannModel.Durable.Lemmas
/-
  C02 — lemmas on the sharded metadata slab (`Shard.lean`): the simulation `ShAgree` between the
  shard array and the one association list of the durable model, kept by set / delete / replay /
  the insert loop of restore, for any shard count and any assignment of keys to shards.
  The property theorems are in `ShardProps.lean`.
-/
namespace Neumann.Durable.Props
open Neumann.FramedLog Neumann.Durable

/-- shards and one list answer every `get` alike -/
def ShAgree (n : Nat) (sh : Bytes → Nat) (shs : Shard.Shards) (m : List (Bytes × Val)) : Prop :=
  ∀ k, Shard.get n sh shs k = aget m k

theorem shagree_set {n : Nat} {sh : Bytes → Nat} {shs : Shard.Shards} {m : List (Bytes × Val)}
    (h : ShAgree n sh shs m) (k : Bytes) (v : Val) : ShAgree n sh (Shard.set n sh shs k v) (aset m k v) := by
  intro key
  unfold Shard.get Shard.set
  by_cases hk : k = key
  · subst hk; simp [aget_aset_eq]
  · rw [aget_aset_ne _ _ _ _ hk]
    by_cases hi : sh key % n = sh k % n
    · simp only [hi, if_true]
      rw [aget_aset_ne _ _ _ _ hk]
      have := h key
      unfold Shard.get at this
      rw [hi] at this
      exact this
    · simp only [hi, if_false]
      exact h key

theorem shagree_delete {n : Nat} {sh : Bytes → Nat} {shs : Shard.Shards} {m : List (Bytes × Val)}
    (h : ShAgree n sh shs m) (k : Bytes) : ShAgree n sh (Shard.delete n sh shs k) (aerase m k) := by
  intro key
  unfold Shard.get Shard.delete
  by_cases hk : k = key
  · subst hk; simp [aget_aerase_eq]
  · rw [aget_aerase_ne _ _ _ hk]
    by_cases hi : sh key % n = sh k % n
    · simp only [hi, if_true]
      rw [aget_aerase_ne _ _ _ hk]
      have := h key
      unfold Shard.get at this
      rw [hi] at this
      exact this
    · simp only [hi, if_false]
      exact h key

theorem shagree_replay {n : Nat} {sh : Bytes → Nat} (es : List Entry) :
    ∀ {shs : Shard.Shards} {m : List (Bytes × Val)}, ShAgree n sh shs m →
      ShAgree n sh (Shard.replay n sh shs es) (replayMeta m es) := by
  induction es with
  | nil => intro shs m h; exact h
  | cons e es ih =>
    intro shs m h
    show ShAgree n sh (Shard.replay n sh (Shard.apply n sh shs e) es) (replayMeta (metaApply m e) es)
    apply ih
    cases e <;> first | exact shagree_set h _ _ | exact shagree_delete h _ | exact h

theorem aget_none_of_not_mem {m : List (Bytes × Val)} {k : Bytes} (h : k ∉ m.map (·.1)) : aget m k = none := by
  induction m with
  | nil => rfl
  | cons p m ih =>
    obtain ⟨k', v⟩ := p
    simp only [List.map_cons, List.mem_cons, not_or] at h
    simp only [aget]
    rw [if_neg (fun e => h.1 e.symm)]
    exact ih h.2

/-- the insert loop of `restore` on one list: the last entry of a key decides; on a map (unique
    keys, which a snapshot is) that is the map itself -/
theorem aget_foldl_aset (data : List (Bytes × Val)) (hnd : (data.map (·.1)).Nodup) (k : Bytes) :
    ∀ m : List (Bytes × Val), aget (data.foldl (fun m p => aset m p.1 p.2) m) k =
      match aget data k with | some v => some v | none => aget m k := by
  induction data with
  | nil => intro m; rfl
  | cons p rest ih =>
    intro m
    obtain ⟨k', v⟩ := p
    simp only [List.map_cons, List.nodup_cons] at hnd
    simp only [List.foldl_cons]
    rw [ih hnd.2]
    by_cases hk : k' = k
    · subst hk
      rw [aget_none_of_not_mem hnd.1]
      simp [aget, aget_aset_eq]
    · simp only [aget, hk, if_false]
      rw [aget_aset_ne _ _ _ _ hk]

theorem shagree_restore_aux (n : Nat) (sh : Bytes → Nat) (data : List (Bytes × Val)) :
    ∀ {shs : Shard.Shards} {m : List (Bytes × Val)}, ShAgree n sh shs m →
      ShAgree n sh (data.foldl (fun shs p => Shard.set n sh shs p.1 p.2) shs)
        (data.foldl (fun m p => aset m p.1 p.2) m) := by
  induction data with
  | nil => intro shs m h; exact h
  | cons p rest ih =>
    intro shs m h
    simp only [List.foldl_cons]
    exact ih (shagree_set h _ _)

end Neumann.Durable.Props
