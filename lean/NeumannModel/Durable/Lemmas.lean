import NeumannModel.Durable.Model
import NeumannModel.Common.FramedLogLemmas
import NeumannModel.Common.Crc32
/-
  C02 — definitions used by the property statements (crash model `Reach`, what "a prefix of
  the writes that contains every acknowledged one" means, assumptions on the opaque codec)
  and the helper lemmas for `Props.lean`.
-/
namespace Neumann.Durable
open Neumann.FramedLog

/-! ### vocabulary of the statements -/

/-- what is assumed of bitcode (`dec ∘ enc = id`) and of the checksum (fits a u32) -/
structure CodecOK (crc : Bytes → Nat) (enc : Entry → Bytes) (dec : Bytes → Option Entry) : Prop where
  dec_enc : ∀ e, dec (enc e) = some e
  crc_lt : ∀ p, crc p < U32

/-- two metadata maps answer every `get` alike (hence also list the same keys) -/
def MetaEq (m m' : List (Bytes × Val)) : Prop := ∀ k, aget m k = aget m' k

/-- every record fits the u32 length field (otherwise the real `append` fails with `EntryTooLarge`) -/
def Fits (enc : Entry → Bytes) (es : List Entry) : Prop := ∀ e ∈ es, (enc e).length < U32

/-- bytes the writer produces for a list of entries -/
def logBytes (crc : Bytes → Nat) (enc : Entry → Bytes) (es : List Entry) : Bytes :=
  encodeAll crc (es.map enc)

/-- per epoch (= one open … crash stretch): the operations issued, and how many of them had been
    acknowledged (returned under `Immediate`, or covered by a later `sync`) when the crash hit -/
abbrev Trace := List (List Op × Nat)

/-- **The crash model.**  Disk states (snapshot file, log file) reachable by any number of rounds
    `recover → issue operations → crash`, where a crash keeps any byte prefix of the log that
    contains (a) everything that was on disk when the log was reopened and (b) the records of
    every acknowledged operation; plus the crash points inside `checkpoint`
    (snapshot renamed into place / marker partly or fully written / log truncated) taken when
    the log is fully synced. -/
inductive Reach (crc : Bytes → Nat) (enc : Entry → Bytes) (dec : Bytes → Option Entry) :
    Option Store → Bytes → Trace → Prop where
  | init : Reach crc enc dec none [] []
  | round {snap f tr} (mem0 : Store) (ops : List Op) (acked n : Nat) :
      Reach crc enc dec snap f tr →
      recover crc dec snap f = .ok mem0 →
      Fits enc (runOps mem0 ops).1 →
      (openRepair f).length ≤ n →
      acked ≤ ops.length →
      (openRepair f ++ logBytes crc enc (runOps mem0 (ops.take acked)).1).length ≤ n →
      Reach crc enc dec snap
        ((openRepair f ++ logBytes crc enc (runOps mem0 ops).1).take n) (tr ++ [(ops, acked)])
  | ckptCrash {snap f tr} (mem0 : Store) (ops : List Op) (id m : Nat) :
      Reach crc enc dec snap f tr →
      recover crc dec snap f = .ok mem0 →
      Fits enc (runOps mem0 ops).1 →
      (enc (.checkpoint id)).length < U32 →
      Reach crc enc dec (some (runOps mem0 ops).2)
        (openRepair f ++ logBytes crc enc (runOps mem0 ops).1
          ++ (encodeRec crc (enc (.checkpoint id))).take m)
        (tr ++ [(ops, ops.length)])
  | ckptDone {snap f tr} (mem0 : Store) (ops : List Op) :
      Reach crc enc dec snap f tr →
      recover crc dec snap f = .ok mem0 →
      Fits enc (runOps mem0 ops).1 →
      Reach crc enc dec (some (runOps mem0 ops).2) [] (tr ++ [(ops, ops.length)])

/-- `H` consists, epoch by epoch and in order, of a prefix of that epoch's operations which
    contains at least the acknowledged ones -/
inductive PrefixOf : Trace → List Op → Prop where
  | nil : PrefixOf [] []
  | snoc {tr H} (ops : List Op) (acked k : Nat) :
      PrefixOf tr H → acked ≤ k → k ≤ ops.length →
      PrefixOf (tr ++ [(ops, acked)]) (H ++ ops.take k)

/-! ### a concrete codec (only to show the hypotheses are satisfiable and to run witnesses) -/

def encB (b : Bytes) : Bytes := b.length :: b

def decB : Bytes → Option (Bytes × Bytes)
  | [] => none
  | n :: r => if n ≤ r.length then some (r.take n, r.drop n) else none

def toyEnc : Entry → Bytes
  | .metaSet k v => 0 :: encB k ++ encB v.body ++ (match v.emb with | none => [0] | some e => 1 :: e)
  | .metaDel k => 1 :: k
  | .embSet id vec => 2 :: id :: vec
  | .embDel id => [3, id]
  | .entCreate k id => 4 :: id :: k
  | .entRemove k => 5 :: k
  | .txBegin t => [6, t]
  | .txCommit t => [7, t]
  | .txAbort t => [8, t]
  | .checkpoint id => [9, id]

def toyDec : Bytes → Option Entry
  | 0 :: r =>
      match decB r with
      | some (k, r1) =>
          match decB r1 with
          | some (b, [0]) => some (.metaSet k ⟨b, none⟩)
          | some (b, 1 :: e) => some (.metaSet k ⟨b, some e⟩)
          | _ => none
      | none => none
  | 1 :: k => some (.metaDel k)
  | 2 :: id :: vec => some (.embSet id vec)
  | [3, id] => some (.embDel id)
  | 4 :: id :: k => some (.entCreate k id)
  | 5 :: k => some (.entRemove k)
  | [6, t] => some (.txBegin t)
  | [7, t] => some (.txCommit t)
  | [8, t] => some (.txAbort t)
  | [9, id] => some (.checkpoint id)
  | _ => none

/-! ### helper lemmas -/

section assoc
variable {α : Type _} {β : Type _} [DecidableEq α]

theorem aget_aerase_eq (m : List (α × β)) (k : α) : aget (aerase m k) k = none := by
  induction m with
  | nil => simp [aerase, aget]
  | cons p m ih =>
    obtain ⟨k', v⟩ := p
    unfold aerase at *
    by_cases h : k' = k
    · simp [h, ih]
    · simp [h, aget, ih]

theorem aget_aerase_ne (m : List (α × β)) (k key : α) (hne : k ≠ key) :
    aget (aerase m k) key = aget m key := by
  induction m with
  | nil => simp [aerase, aget]
  | cons p m ih =>
    obtain ⟨k', v⟩ := p
    unfold aerase at *
    by_cases h : k' = k
    · subst h; simp [aget, hne, ih]
    · simp [h, aget, ih]

theorem aget_aset_eq (m : List (α × β)) (k : α) (v : β) : aget (aset m k v) k = some v := by
  simp [aset, aget]

theorem aget_aset_ne (m : List (α × β)) (k key : α) (v : β) (hne : k ≠ key) :
    aget (aset m k v) key = aget m key := by
  simp [aset, aget, hne, aget_aerase_ne m k key hne]

theorem aerase_of_aget_none (m : List (α × β)) (k : α) (h : aget m k = none) : aerase m k = m := by
  induction m with
  | nil => simp [aerase]
  | cons p m ih =>
    obtain ⟨k', v⟩ := p
    unfold aerase at *
    by_cases hk : k' = k
    · simp [aget, hk] at h
    · simp [aget, hk] at h
      simp [hk, ih h]
end assoc

/-! #### metadata projection of replay -/

def metaApply (m : List (Bytes × Val)) : Entry → List (Bytes × Val)
  | .metaSet k v => aset m k v
  | .metaDel k => aerase m k
  | _ => m

def replayMeta (m : List (Bytes × Val)) (es : List Entry) : List (Bytes × Val) := es.foldl metaApply m

def isNeutral : Entry → Bool
  | .metaSet _ _ => false
  | .metaDel _ => false
  | _ => true

def isTx : Entry → Bool
  | .txBegin _ => true
  | .txCommit _ => true
  | .txAbort _ => true
  | _ => false

def isCkpt : Entry → Bool
  | .checkpoint _ => true
  | _ => false

theorem applyEntry_md (s : Store) (e : Entry) : (applyEntry s e).md = metaApply s.md e := by
  cases e <;> simp only [applyEntry, metaApply]
  split <;> rfl

theorem applyEntry_cache (s : Store) (e : Entry) : (applyEntry s e).cache = s.cache := by
  cases e <;> simp only [applyEntry]
  split <;> rfl

theorem replay_md (s : Store) (es : List Entry) : (replay s es).md = replayMeta s.md es := by
  induction es generalizing s with
  | nil => rfl
  | cons e es ih =>
    simp only [replay, replayMeta, List.foldl_cons] at *
    rw [ih, applyEntry_md]

theorem replay_cache (s : Store) (es : List Entry) : (replay s es).cache = s.cache := by
  induction es generalizing s with
  | nil => rfl
  | cons e es ih =>
    simp only [replay, List.foldl_cons] at *
    rw [ih, applyEntry_cache]

theorem replayMeta_nil (m : List (Bytes × Val)) : replayMeta m [] = m := rfl

theorem replayMeta_cons (m : List (Bytes × Val)) (e : Entry) (es : List Entry) :
    replayMeta m (e :: es) = replayMeta (metaApply m e) es := rfl

theorem replayMeta_append (m : List (Bytes × Val)) (xs ys : List Entry) :
    replayMeta m (xs ++ ys) = replayMeta (replayMeta m xs) ys := by
  simp [replayMeta, List.foldl_append]

theorem metaApply_neutral (m : List (Bytes × Val)) (e : Entry) (h : isNeutral e = true) :
    metaApply m e = m := by
  cases e <;> simp_all [isNeutral, metaApply]

theorem replayMeta_neutral (m : List (Bytes × Val)) (es : List Entry)
    (h : ∀ e ∈ es, isNeutral e = true) : replayMeta m es = m := by
  induction es generalizing m with
  | nil => rfl
  | cons e es ih =>
    rw [replayMeta_cons, metaApply_neutral m e (h e (by simp)), ih m (fun x hx => h x (by simp [hx]))]

/-! #### one operation -/

theorem put_md (s : Store) (k : Bytes) (v : Val) :
    (put s k v).md = if isCacheKey k then s.md else aset s.md k v := by
  unfold put isCacheKey
  split <;> simp_all

theorem put_vocab_md (s : Store) (voc : List (Bytes × Bool)) (k : Bytes) (v : Val) :
    (put { s with vocab := voc } k v).md = (put s k v).md := by
  rw [put_md, put_md]

theorem exists_false_md (s : Store) (k : Bytes) (hc : isCacheKey k = false)
    (h : exists_ s k = false) : aget s.md k = none := by
  unfold exists_ at h
  unfold isCacheKey at hc
  split at h <;> simp_all

theorem delete_md (s : Store) (k : Bytes) :
    (delete s k).1.md = if isCacheKey k then s.md else aerase s.md k := by
  unfold delete
  by_cases hc : isCacheKey k = true
  · simp only [hc, if_true]
    unfold isCacheKey at hc
    have hc' : classify k = .cache := by simpa using hc
    split
    · rfl
    · simp [hc']
  · have hc0 : isCacheKey k = false := by simpa using hc
    simp only [hc0]
    by_cases he : exists_ s k = true
    · simp only [he]
      unfold isCacheKey at hc0
      have hc' : classify k ≠ .cache := by simpa using hc0
      simp
      split <;> simp_all
    · have he0 : exists_ s k = false := by simpa using he
      simp [he0, aerase_of_aget_none _ _ (exists_false_md s k hc0 he0)]

theorem putDurable_fst (s : Store) (k : Bytes) (v : Val) :
    (putDurable s k v).1 = if isCacheKey k then [] else
      match v.emb with
      | some vec => [.embSet (idxGetOrCreate s.vocab k).1 vec, .metaSet k v]
      | none => [.metaSet k v] := by
  unfold putDurable
  by_cases hc : isCacheKey k = true
  · simp [hc]
  · have hc0 : isCacheKey k = false := by simpa using hc
    cases hv : v.emb <;> simp [hc0]

theorem putDurable_snd_md (s : Store) (k : Bytes) (v : Val) :
    (putDurable s k v).2.md = if isCacheKey k then s.md else aset s.md k v := by
  unfold putDurable
  by_cases hc : isCacheKey k = true
  · simp [hc, put_md]
  · have hc0 : isCacheKey k = false := by simpa using hc
    cases hv : v.emb <;> simp [hc0, put_md]

theorem deleteDurable_fst (s : Store) (k : Bytes) :
    (deleteDurable s k).1 = if isCacheKey k then [] else
      (match idxGet s.vocab k with
        | some id => [Entry.embDel id, Entry.entRemove k]
        | none => []) ++ [.metaDel k] := by
  unfold deleteDurable
  by_cases hc : isCacheKey k = true
  · simp [hc]
  · have hc0 : isCacheKey k = false := by simpa using hc
    simp [hc0]
    cases idxGet s.vocab k <;> rfl

theorem deleteDurable_snd_md (s : Store) (k : Bytes) :
    (deleteDurable s k).2.1.md = if isCacheKey k then s.md else aerase s.md k := by
  unfold deleteDurable
  by_cases hc : isCacheKey k = true
  · simp [hc, delete_md]
  · have hc0 : isCacheKey k = false := by simpa using hc
    simp [hc0, delete_md]

theorem step_md (s : Store) (op : Op) : (step s op).2.md = specApply s.md op := by
  cases op with
  | put k v => simp only [step, specApply, putDurable_snd_md]
  | delete k => simp only [step, specApply, deleteDurable_snd_md]

theorem step_replay (s : Store) (op : Op) : replayMeta s.md (step s op).1 = specApply s.md op := by
  cases op with
  | put k v =>
    simp only [step, specApply, putDurable_fst]
    by_cases hc : isCacheKey k = true
    · simp [hc, replayMeta]
    · have hc0 : isCacheKey k = false := by simpa using hc
      cases hv : v.emb <;> simp [hc0, replayMeta, metaApply]
  | delete k =>
    simp only [step, specApply, deleteDurable_fst]
    by_cases hc : isCacheKey k = true
    · simp [hc, replayMeta]
    · have hc0 : isCacheKey k = false := by simpa using hc
      cases hi : idxGet s.vocab k <;> simp [hc0, replayMeta, metaApply]

theorem step_shape (s : Store) (op : Op) :
    (step s op).1 = [] ∨ ∃ pre last, (step s op).1 = pre ++ [last] ∧ ∀ e ∈ pre, isNeutral e = true := by
  cases op with
  | put k v =>
    simp only [step, putDurable_fst]
    by_cases hc : isCacheKey k = true
    · left; simp [hc]
    · have hc0 : isCacheKey k = false := by simpa using hc
      right
      cases hv : v.emb with
      | none => exact ⟨[], .metaSet k v, by simp [hc0], by simp⟩
      | some vec =>
        exact ⟨[.embSet (idxGetOrCreate s.vocab k).1 vec], .metaSet k v, by simp [hc0], by simp [isNeutral]⟩
  | delete k =>
    simp only [step, deleteDurable_fst]
    by_cases hc : isCacheKey k = true
    · left; simp [hc]
    · have hc0 : isCacheKey k = false := by simpa using hc
      right
      refine ⟨_, .metaDel k, by simp only [hc0]; rfl, ?_⟩
      cases hi : idxGet s.vocab k <;> simp [isNeutral]

theorem step_plain (s : Store) (op : Op) :
    ∀ e ∈ (step s op).1, isTx e = false ∧ isCkpt e = false := by
  cases op with
  | put k v =>
    simp only [step, putDurable_fst]
    by_cases hc : isCacheKey k = true
    · simp [hc]
    · have hc0 : isCacheKey k = false := by simpa using hc
      cases hv : v.emb <;> simp [hc0, isTx, isCkpt]
  | delete k =>
    simp only [step, deleteDurable_fst]
    by_cases hc : isCacheKey k = true
    · simp [hc]
    · have hc0 : isCacheKey k = false := by simpa using hc
      cases hi : idxGet s.vocab k <;> simp [hc0, isTx, isCkpt]

theorem step_take_neutral (s : Store) (op : Op) (i : Nat) (hi : i < (step s op).1.length) :
    replayMeta s.md ((step s op).1.take i) = s.md := by
  rcases step_shape s op with h | ⟨pre, last, h, hn⟩
  · rw [h] at hi; simp at hi
  · rw [h] at hi ⊢
    simp at hi
    rw [List.take_append_of_le_length (by omega)]
    exact replayMeta_neutral _ _ (fun e he => hn e (List.mem_of_mem_take he))

/-! #### operation lists -/

theorem runOps_nil (s : Store) : runOps s [] = ([], s) := rfl

theorem runOps_cons (s : Store) (op : Op) (ops : List Op) :
    runOps s (op :: ops) = ((step s op).1 ++ (runOps (step s op).2 ops).1, (runOps (step s op).2 ops).2) := rfl

theorem specRun_nil (m : List (Bytes × Val)) : specRun m [] = m := rfl

theorem specRun_cons (m : List (Bytes × Val)) (op : Op) (ops : List Op) :
    specRun m (op :: ops) = specRun (specApply m op) ops := rfl

theorem specRun_append (m : List (Bytes × Val)) (xs ys : List Op) :
    specRun m (xs ++ ys) = specRun (specRun m xs) ys := by
  simp [specRun, List.foldl_append]

theorem runOps_md (s : Store) (ops : List Op) : (runOps s ops).2.md = specRun s.md ops := by
  induction ops generalizing s with
  | nil => rfl
  | cons op ops ih => rw [runOps_cons, specRun_cons, ← step_md]; exact ih _

theorem runOps_replay (s : Store) (ops : List Op) :
    replayMeta s.md (runOps s ops).1 = specRun s.md ops := by
  induction ops generalizing s with
  | nil => rfl
  | cons op ops ih =>
    rw [runOps_cons, specRun_cons, replayMeta_append, step_replay, ← step_md]; exact ih _

theorem runOps_plain (s : Store) (ops : List Op) :
    ∀ e ∈ (runOps s ops).1, isTx e = false ∧ isCkpt e = false := by
  induction ops generalizing s with
  | nil => simp [runOps_nil]
  | cons op ops ih =>
    intro e he
    rw [runOps_cons] at he
    rcases List.mem_append.mp he with h | h
    · exact step_plain s op e h
    · exact ih _ e h

theorem runOps_take_prefix (s : Store) (ops : List Op) (a : Nat) :
    ∃ rest, (runOps s ops).1 = (runOps s (ops.take a)).1 ++ rest := by
  induction ops generalizing s a with
  | nil => exact ⟨[], by simp [runOps_nil]⟩
  | cons op ops ih =>
    cases a with
    | zero => exact ⟨(runOps s (op :: ops)).1, by simp [runOps_nil]⟩
    | succ a =>
      obtain ⟨rest, hrest⟩ := ih (step s op).2 a
      refine ⟨rest, ?_⟩
      rw [List.take_succ_cons, runOps_cons, runOps_cons, hrest]
      simp

/-- GROUP LEMMA: a record-prefix of the log of `ops` replays to the map of an operation-prefix,
    which contains every operation whose records are wholly inside the record-prefix -/
theorem group_prefix (s : Store) (ops : List Op) (i : Nat) :
    ∃ k, k ≤ ops.length ∧
      replayMeta s.md ((runOps s ops).1.take i) = specRun s.md (ops.take k) ∧
      ∀ a, a ≤ ops.length → (runOps s (ops.take a)).1.length ≤ i → a ≤ k := by
  induction ops generalizing s i with
  | nil => exact ⟨0, by simp, by simp [runOps_nil, replayMeta_nil, specRun_nil], by simp⟩
  | cons op ops ih =>
    by_cases hle : (step s op).1.length ≤ i
    · obtain ⟨k, hk, hrep, hall⟩ := ih (step s op).2 (i - (step s op).1.length)
      refine ⟨k + 1, by simp; omega, ?_, ?_⟩
      · rw [runOps_cons, List.take_append, List.take_of_length_le hle, replayMeta_append,
          step_replay, List.take_succ_cons, specRun_cons, ← step_md]
        exact hrep
      · intro a ha hlen
        cases a with
        | zero => omega
        | succ a =>
          rw [List.take_succ_cons, runOps_cons] at hlen
          simp only [List.length_append] at hlen
          have := hall a (by simp at ha; omega) (by omega)
          omega
    · have hlt : i < (step s op).1.length := by omega
      refine ⟨0, by simp, ?_, ?_⟩
      · rw [runOps_cons, List.take_append_of_le_length (by omega), step_take_neutral s op i hlt]
        rfl
      · intro a ha hlen
        cases a with
        | zero => omega
        | succ a =>
          rw [List.take_succ_cons, runOps_cons] at hlen
          simp only [List.length_append] at hlen
          omega

/-! #### `fromEntries` on logs without transaction markers -/

def ckStep (acc : List Entry) : Entry → List Entry
  | .checkpoint _ => []
  | e => acc ++ [e]

/-- entries after the last checkpoint marker -/
def afterLastCkpt (es : List Entry) : List Entry := es.foldl ckStep []

theorem recStep_plain (r : Rec) (e : Entry) (ha : r.active = none) (hb : r.bufs = [])
    (hcm : r.committed = []) (he : isTx e = false) :
    (recStep r e).active = none ∧ (recStep r e).bufs = [] ∧ (recStep r e).committed = [] ∧
      (recStep r e).operations = ckStep r.operations e := by
  cases e <;> simp_all [recStep, ckStep, isTx]

theorem foldl_recStep_plain (es : List Entry) (r : Rec) (ha : r.active = none) (hb : r.bufs = [])
    (hcm : r.committed = []) (he : ∀ e ∈ es, isTx e = false) :
    (es.foldl recStep r).committed = [] ∧
      (es.foldl recStep r).operations = es.foldl ckStep r.operations := by
  induction es generalizing r with
  | nil => exact ⟨hcm, rfl⟩
  | cons e es ih =>
    obtain ⟨h1, h2, h3, h4⟩ := recStep_plain r e ha hb hcm (he e (by simp))
    have := ih (recStep r e) h1 h2 h3 (fun x hx => he x (by simp [hx]))
    simp only [List.foldl_cons]
    rw [this.1, this.2, h4]
    exact ⟨rfl, rfl⟩

theorem allOperations_fromEntries (es : List Entry) (he : ∀ e ∈ es, isTx e = false) :
    allOperations (fromEntries es) = afterLastCkpt es := by
  have := foldl_recStep_plain es {} rfl rfl rfl he
  unfold allOperations fromEntries afterLastCkpt
  rw [this.1, this.2]; simp

theorem foldl_ckStep_plain (acc X : List Entry) (h : ∀ e ∈ X, isCkpt e = false) :
    X.foldl ckStep acc = acc ++ X := by
  induction X generalizing acc with
  | nil => simp
  | cons e X ih =>
    have he : ckStep acc e = acc ++ [e] := by
      have := h e (by simp)
      cases e <;> simp_all [ckStep, isCkpt]
    simp only [List.foldl_cons]
    rw [he, ih _ (fun x hx => h x (by simp [hx]))]; simp

theorem afterLastCkpt_append_plain (S X : List Entry) (h : ∀ e ∈ X, isCkpt e = false) :
    afterLastCkpt (S ++ X) = afterLastCkpt S ++ X := by
  unfold afterLastCkpt
  rw [List.foldl_append, foldl_ckStep_plain _ _ h]

theorem afterLastCkpt_append_ckpt (S : List Entry) (id : Nat) :
    afterLastCkpt (S ++ [.checkpoint id]) = [] := by
  unfold afterLastCkpt
  rw [List.foldl_append]; rfl

theorem afterLastCkpt_nil : afterLastCkpt [] = [] := rfl

/-! #### last write per key: replay is idempotent -/

def writeOf : Entry → Bytes → Option (Option Val)
  | .metaSet k v, key => if k = key then some (some v) else none
  | .metaDel k, key => if k = key then some none else none
  | _, _ => none

def lastWrite : List Entry → Bytes → Option (Option Val)
  | [], _ => none
  | e :: es, key =>
    match lastWrite es key with
    | some r => some r
    | none => writeOf e key

theorem aget_metaApply (m : List (Bytes × Val)) (e : Entry) (key : Bytes) :
    aget (metaApply m e) key = match writeOf e key with | some r => r | none => aget m key := by
  cases e with
  | metaSet k v =>
    by_cases h : k = key
    · subst h; simp [metaApply, writeOf, aget_aset_eq]
    · simp [metaApply, writeOf, h, aget_aset_ne _ _ _ _ h]
  | metaDel k =>
    by_cases h : k = key
    · subst h; simp [metaApply, writeOf, aget_aerase_eq]
    · simp [metaApply, writeOf, h, aget_aerase_ne _ _ _ h]
  | _ => simp [metaApply, writeOf]

theorem aget_replayMeta (m : List (Bytes × Val)) (es : List Entry) (key : Bytes) :
    aget (replayMeta m es) key = match lastWrite es key with | some r => r | none => aget m key := by
  induction es generalizing m with
  | nil => rfl
  | cons e es ih =>
    rw [replayMeta_cons, ih, lastWrite]
    cases h : lastWrite es key with
    | some r => rfl
    | none => simp only [aget_metaApply]

theorem MetaEq.refl (m : List (Bytes × Val)) : MetaEq m m := fun _ => rfl

theorem MetaEq.symm {m m' : List (Bytes × Val)} (h : MetaEq m m') : MetaEq m' m := fun k => (h k).symm

theorem MetaEq.trans {a b c : List (Bytes × Val)} (h1 : MetaEq a b) (h2 : MetaEq b c) : MetaEq a c :=
  fun k => (h1 k).trans (h2 k)

theorem replayMeta_congr {m m' : List (Bytes × Val)} (h : MetaEq m m') (es : List Entry) :
    MetaEq (replayMeta m es) (replayMeta m' es) := by
  intro key
  rw [aget_replayMeta, aget_replayMeta, h key]

theorem replayMeta_idem (m : List (Bytes × Val)) (X : List Entry) :
    MetaEq (replayMeta (replayMeta m X) X) (replayMeta m X) := by
  intro key
  rw [aget_replayMeta (replayMeta m X)]
  cases h : lastWrite X key with
  | some r => simp only; rw [aget_replayMeta, h]
  | none => rfl

theorem specApply_congr {m m' : List (Bytes × Val)} (h : MetaEq m m') (op : Op) :
    MetaEq (specApply m op) (specApply m' op) := by
  cases op with
  | put k v =>
    simp only [specApply]
    split
    · exact h
    · exact replayMeta_congr h [.metaSet k v]
  | delete k =>
    simp only [specApply]
    split
    · exact h
    · exact replayMeta_congr h [.metaDel k]

theorem specRun_congr {m m' : List (Bytes × Val)} (h : MetaEq m m') (ops : List Op) :
    MetaEq (specRun m ops) (specRun m' ops) := by
  induction ops generalizing m m' with
  | nil => exact h
  | cons op ops ih => rw [specRun_cons, specRun_cons]; exact ih (specApply_congr h op)

/-! #### bytes → entries -/

theorem encodeRec_ne_nil (crc : List Nat → Nat) (p : List Nat) : encodeRec crc p ≠ [] := by
  simp [encodeRec, le32]

/-- the end condition of a strict prefix of one record: never a checksum failure -/
theorem parse_torn_end (crc : List Nat → Nat) (dec : List Nat → Bool) (p : List Nat) (m : Nat)
    (hp : p.length < U32) (hm : m < (encodeRec crc p).length) :
    (parse crc dec ((encodeRec crc p).take m)).2 = if m = 0 then .clean else .torn := by
  rw [encodeRec_length] at hm
  rw [parse]
  by_cases h8 : ((encodeRec crc p).take m).length < 8
  · rw [dif_pos h8]
    by_cases h0 : m = 0
    · subst h0; simp
    · simp [h0, encodeRec_ne_nil]
  · rw [dif_neg h8]
    have hm8 : 8 ≤ m := by
      simp only [List.length_take, encodeRec_length] at h8; omega
    have e1 : ((encodeRec crc p).take m).take 4 = le32 p.length := by
      rw [List.take_take]
      have : min 4 m = 4 := by omega
      rw [this]; simp [encodeRec, le32]
    have e3 : (((encodeRec crc p).take m).drop 8).length = m - 8 := by
      simp only [List.length_drop, List.length_take, encodeRec_length]; omega
    simp only [e1, le32_rt _ hp, e3]
    have : m - 8 < p.length := by omega
    have h0 : m ≠ 0 := by omega
    simp [this, h0]

/-- **Crash at any byte, end condition**: replaying a byte prefix of a well-formed log never
    ends in a checksum failure -/
theorem parse_take_end (crc : List Nat → Nat) (dec : List Nat → Bool) (ps : List (List Nat)) (n : Nat)
    (h : ∀ p ∈ ps, GoodRec crc dec p) :
    (parse crc dec ((encodeAll crc ps).take n)).2 ≠ .badCrc := by
  induction ps generalizing n with
  | nil => simp [encodeAll, parse_nil]
  | cons p ps ih =>
    have hp := h p (by simp)
    have henc : encodeAll crc (p :: ps) = encodeRec crc p ++ encodeAll crc ps := by simp [encodeAll]
    rw [henc, List.take_append]
    by_cases hle : (encodeRec crc p).length ≤ n
    · rw [List.take_of_length_le hle, parse_cons crc dec p _ hp]
      exact ih _ (fun q hq => h q (by simp [hq]))
    · have hz : n - (encodeRec crc p).length = 0 := by omega
      rw [hz, List.take_zero, List.append_nil, parse_torn_end crc dec p n hp.1 (by omega)]
      split <;> simp

theorem goodRec_enc {crc : Bytes → Nat} {enc : Entry → Bytes} {dec : Bytes → Option Entry}
    (hc : CodecOK crc enc dec) (e : Entry) (h : (enc e).length < U32) :
    GoodRec crc (fun p => (dec p).isSome) (enc e) :=
  ⟨h, hc.crc_lt _, by simp [hc.dec_enc]⟩

theorem filterMap_dec_enc {enc : Entry → Bytes} {dec : Bytes → Option Entry}
    (h : ∀ e, dec (enc e) = some e) (l : List Entry) : (l.map enc).filterMap dec = l := by
  induction l with
  | nil => rfl
  | cons e l ih => simp [h, ih]

theorem logBytes_append (crc : Bytes → Nat) (enc : Entry → Bytes) (xs ys : List Entry) :
    logBytes crc enc (xs ++ ys) = logBytes crc enc xs ++ logBytes crc enc ys := by
  simp [logBytes, encodeAll_append]

theorem logBytes_nil (crc : Bytes → Nat) (enc : Entry → Bytes) : logBytes crc enc [] = [] := rfl

theorem logBytes_singleton (crc : Bytes → Nat) (enc : Entry → Bytes) (e : Entry) :
    logBytes crc enc [e] = encodeRec crc (enc e) := by
  simp [logBytes, encodeAll]

theorem Fits.take {enc : Entry → Bytes} {R : List Entry} (h : Fits enc R) (j : Nat) : Fits enc (R.take j) :=
  fun e he => h e (List.mem_of_mem_take he)

theorem Fits.append {enc : Entry → Bytes} {xs ys : List Entry} (h1 : Fits enc xs) (h2 : Fits enc ys) :
    Fits enc (xs ++ ys) := by
  intro e he
  rcases List.mem_append.mp he with h | h
  · exact h1 e h
  · exact h2 e h

section bridge
variable {crc : Bytes → Nat} {enc : Entry → Bytes} {dec : Bytes → Option Entry}

theorem entriesOf_take (hc : CodecOK crc enc dec) (R : List Entry) (n : Nat) (hfit : Fits enc R) :
    (entriesOf crc dec ((logBytes crc enc R).take n)).1 = R.take (wholeWithin crc (R.map enc) n) ∧
    (entriesOf crc dec ((logBytes crc enc R).take n)).2 ≠ .badCrc := by
  have hg : ∀ p ∈ R.map enc, GoodRec crc (fun p => (dec p).isSome) p := by
    intro p hp
    obtain ⟨e, he, rfl⟩ := List.mem_map.mp hp
    exact goodRec_enc hc e (hfit e he)
  unfold entriesOf logBytes
  refine ⟨?_, parse_take_end crc _ _ n hg⟩
  simp only []
  rw [parse_take crc _ _ n hg, ← List.map_take, filterMap_dec_enc hc.dec_enc]

/-- **Recovery from any byte prefix of a well-formed log** -/
theorem recover_take (hc : CodecOK crc enc dec) (snap : Option Store) (R : List Entry) (n : Nat)
    (hfit : Fits enc R) :
    recover crc dec snap ((logBytes crc enc R).take n) =
      .ok (replay (snap.getD Store.empty)
        (allOperations (fromEntries (R.take (wholeWithin crc (R.map enc) n))))) := by
  obtain ⟨h1, h2⟩ := entriesOf_take hc R n hfit
  unfold recover
  simp only []
  rw [if_neg h2, h1]

theorem openRepair_logBytes_take (R : List Entry) (n : Nat) (hfit : Fits enc R) :
    openRepair ((logBytes crc enc R).take n) = logBytes crc enc (R.take (wholeWithin crc (R.map enc) n)) := by
  unfold logBytes
  rw [openRepair_take crc _ n, List.map_take]
  intro p hp
  obtain ⟨e, he, rfl⟩ := List.mem_map.mp hp
  exact hfit e he

theorem wholeWithin_full (ps : List (List Nat)) (n : Nat) (h : (encodeAll crc ps).length ≤ n) :
    wholeWithin crc ps n = ps.length := by
  have h1 := wholeWithin_le crc ps n
  have h2 := wholeWithin_ge crc ps ps.length n (Nat.le_refl _) (by simpa using h)
  omega

end bridge

/-! #### the invariant of the crash model -/

def NoTx (R : List Entry) : Prop := ∀ e ∈ R, isTx e = false

theorem NoTx.take {R : List Entry} (h : NoTx R) (j : Nat) : NoTx (R.take j) :=
  fun e he => h e (List.mem_of_mem_take he)

theorem NoTx.append {xs ys : List Entry} (h1 : NoTx xs) (h2 : NoTx ys) : NoTx (xs ++ ys) := by
  intro e he
  rcases List.mem_append.mp he with h | h
  · exact h1 e h
  · exact h2 e h

/-- the log file is a byte prefix of a well-formed, transaction-free log whose surviving records,
    replayed over the snapshot, give the map of the history `H` -/
def Inv (crc : Bytes → Nat) (enc : Entry → Bytes) (snap : Option Store) (f : Bytes) (H : List Op) : Prop :=
  ∃ (R : List Entry) (n : Nat), f = (logBytes crc enc R).take n ∧ Fits enc R ∧ NoTx R ∧
    MetaEq (replayMeta (snap.getD Store.empty).md
      (afterLastCkpt (R.take (wholeWithin crc (R.map enc) n)))) (specRun [] H)

section inv
variable {crc : Bytes → Nat} {enc : Entry → Bytes} {dec : Bytes → Option Entry}

theorem recover_take_plain (hc : CodecOK crc enc dec) (snap : Option Store) (R : List Entry) (n : Nat)
    (hfit : Fits enc R) (hno : NoTx R) :
    recover crc dec snap ((logBytes crc enc R).take n) =
      .ok (replay (snap.getD Store.empty) (afterLastCkpt (R.take (wholeWithin crc (R.map enc) n)))) := by
  rw [recover_take hc snap R n hfit, allOperations_fromEntries _ (hno.take _)]

theorem inv_open (hc : CodecOK crc enc dec) {snap : Option Store} {f : Bytes} {H : List Op}
    (hinv : Inv crc enc snap f H) {mem0 : Store} (hr : recover crc dec snap f = .ok mem0) :
    ∃ S, openRepair f = logBytes crc enc S ∧ Fits enc S ∧ NoTx S ∧
      mem0 = replay (snap.getD Store.empty) (afterLastCkpt S) ∧ MetaEq mem0.md (specRun [] H) := by
  obtain ⟨R, n, rfl, hfit, hno, hme⟩ := hinv
  rw [recover_take_plain hc snap R n hfit hno] at hr
  injection hr with hr
  subst hr
  refine ⟨_, openRepair_logBytes_take R n hfit, hfit.take _, hno.take _, rfl, ?_⟩
  rw [replay_md]; exact hme

theorem take_length_add_append {α : Type _} (l₁ l₂ : List α) (c : Nat) :
    (l₁ ++ l₂).take (l₁.length + c) = l₁ ++ l₂.take c := by
  rw [List.take_append, List.take_of_length_le (by omega)]
  congr 2; omega

/-- which records survive a cut at or after the end of the reopened part -/
theorem take_split (S X : List Entry) (n : Nat) (hn : (logBytes crc enc S).length ≤ n) :
    ∃ i, i ≤ X.length ∧
      (S ++ X).take (wholeWithin crc ((S ++ X).map enc) n) = S ++ X.take i ∧
      ∀ c, c ≤ X.length → (logBytes crc enc S ++ logBytes crc enc (X.take c)).length ≤ n → c ≤ i := by
  have hle : wholeWithin crc ((S ++ X).map enc) n ≤ S.length + X.length := by
    have := wholeWithin_le crc ((S ++ X).map enc) n; simpa using this
  have hge : S.length ≤ wholeWithin crc ((S ++ X).map enc) n := by
    apply wholeWithin_ge crc _ S.length n (by simp)
    rw [← List.map_take]
    have : (S ++ X).take S.length = S := by simp
    rw [this]; exact hn
  refine ⟨wholeWithin crc ((S ++ X).map enc) n - S.length, by omega, ?_, ?_⟩
  · rw [List.take_append, List.take_of_length_le hge]
  · intro c hc hlen
    have := wholeWithin_ge crc ((S ++ X).map enc) (S.length + c) n (by simp; omega) (by
      rw [← List.map_take, take_length_add_append, ← logBytes_append] at *
      exact hlen)
    omega

/-- the `round` step -/
theorem inv_round (hc : CodecOK crc enc dec) {snap : Option Store} {f : Bytes} {H : List Op}
    (hinv : Inv crc enc snap f H) (mem0 : Store) (hr : recover crc dec snap f = .ok mem0)
    (ops : List Op) (acked n : Nat) (hfit : Fits enc (runOps mem0 ops).1)
    (hn : (openRepair f).length ≤ n) (hacked : acked ≤ ops.length)
    (hack : (openRepair f ++ logBytes crc enc (runOps mem0 (ops.take acked)).1).length ≤ n) :
    ∃ k, acked ≤ k ∧ k ≤ ops.length ∧
      Inv crc enc snap ((openRepair f ++ logBytes crc enc (runOps mem0 ops).1).take n) (H ++ ops.take k) := by
  obtain ⟨S, hopen, hSfit, hSno, hmem, hme⟩ := inv_open hc hinv hr
  rw [hopen] at hn hack ⊢
  have hplain := runOps_plain mem0 ops
  obtain ⟨i, hi, htake, hall⟩ := take_split (crc := crc) (enc := enc) S (runOps mem0 ops).1 n hn
  obtain ⟨k, hk, hrep, hgrp⟩ := group_prefix mem0 ops i
  have hak : acked ≤ k := by
    apply hgrp acked hacked
    obtain ⟨rest, hrest⟩ := runOps_take_prefix mem0 ops acked
    apply hall _ (by rw [hrest]; simp)
    have : (runOps mem0 ops).1.take (runOps mem0 (ops.take acked)).1.length
        = (runOps mem0 (ops.take acked)).1 := by rw [hrest]; simp
    rw [this]; exact hack
  refine ⟨k, hak, hk, S ++ (runOps mem0 ops).1, n, by rw [logBytes_append], hSfit.append hfit,
    hSno.append (fun e he => (hplain e he).1), ?_⟩
  rw [htake, afterLastCkpt_append_plain _ _ (fun e he => (hplain e (List.mem_of_mem_take he)).2),
    replayMeta_append, ← replay_md, ← hmem, hrep, specRun_append]
  exact specRun_congr hme _

/-- recovery from a crash anywhere inside or after the checkpoint marker, new snapshot in place -/
theorem inv_ckpt (S recs : List Entry) (hS : Fits enc S) (hR : Fits enc recs) (nS : NoTx S)
    (nR : ∀ e ∈ recs, isTx e = false ∧ isCkpt e = false) (live : Store) (m0 : List (Bytes × Val))
    (hlive : live.md = replayMeta m0 (afterLastCkpt S ++ recs)) (id m : Nat)
    (hid : (enc (.checkpoint id)).length < U32) :
    ∃ (R : List Entry) (n : Nat),
      logBytes crc enc S ++ logBytes crc enc recs ++ (encodeRec crc (enc (.checkpoint id))).take m
        = (logBytes crc enc R).take n ∧ Fits enc R ∧ NoTx R ∧
      MetaEq (replayMeta live.md (afterLastCkpt (R.take (wholeWithin crc (R.map enc) n)))) live.md := by
  refine ⟨(S ++ recs) ++ [.checkpoint id], (logBytes crc enc (S ++ recs)).length + m, ?_, ?_, ?_, ?_⟩
  · rw [logBytes_append _ _ (S ++ recs), take_length_add_append, logBytes_singleton, logBytes_append]
  · exact (hS.append hR).append (by intro e he; simp at he; subst he; exact hid)
  · exact (nS.append (fun e he => (nR e he).1)).append (by intro e he; simp at he; subst he; rfl)
  · obtain ⟨i, hi, htake, -⟩ := take_split (crc := crc) (enc := enc) (S ++ recs) [.checkpoint id]
      ((logBytes crc enc (S ++ recs)).length + m) (by omega)
    rw [htake]
    simp only [List.length_singleton] at hi
    have hi' : i = 0 ∨ i = 1 := by omega
    rcases hi' with rfl | rfl
    · rw [List.take_zero, List.append_nil, afterLastCkpt_append_plain _ _ (fun e he => (nR e he).2), hlive]
      exact replayMeta_idem _ _
    · rw [List.take_of_length_le (by simp), afterLastCkpt_append_ckpt]
      exact MetaEq.refl _

theorem reach_inv (hc : CodecOK crc enc dec) {snap : Option Store} {f : Bytes} {tr : Trace}
    (h : Reach crc enc dec snap f tr) : ∃ H, PrefixOf tr H ∧ Inv crc enc snap f H := by
  induction h with
  | init =>
    exact ⟨[], .nil, [], 0, rfl, by intro e he; simp at he, by intro e he; simp at he, MetaEq.refl _⟩
  | round mem0 ops acked n _ hr hfit hn hacked hack ih =>
    obtain ⟨H, hpre, hinv⟩ := ih
    obtain ⟨k, hak, hk, hinv'⟩ := inv_round hc hinv mem0 hr ops acked n hfit hn hacked hack
    exact ⟨H ++ ops.take k, .snoc ops acked k hpre hak hk, hinv'⟩
  | @ckptCrash snap' f' tr' mem0 ops id m _ hr hfit hid ih =>
    obtain ⟨H, hpre, hinv⟩ := ih
    obtain ⟨S, hopen, hSfit, hSno, hmem, hme⟩ := inv_open hc hinv hr
    have hlive : (runOps mem0 ops).2.md
        = replayMeta (snap'.getD Store.empty).md (afterLastCkpt S ++ (runOps mem0 ops).1) := by
      rw [replayMeta_append, ← replay_md, ← hmem, runOps_replay, runOps_md]
    obtain ⟨R, n, hf, hRfit, hRno, hRme⟩ := inv_ckpt (crc := crc) S (runOps mem0 ops).1 hSfit hfit hSno
      (runOps_plain mem0 ops) (runOps mem0 ops).2 _ hlive id m hid
    refine ⟨H ++ ops.take ops.length, .snoc ops ops.length ops.length hpre (Nat.le_refl _) (Nat.le_refl _),
      R, n, by rw [hopen]; exact hf, hRfit, hRno, ?_⟩
    refine hRme.trans ?_
    rw [List.take_length, specRun_append, runOps_md]
    exact specRun_congr hme _
  | ckptDone mem0 ops _ hr hfit ih =>
    obtain ⟨H, hpre, hinv⟩ := ih
    obtain ⟨S, hopen, hSfit, hSno, hmem, hme⟩ := inv_open hc hinv hr
    refine ⟨H ++ ops.take ops.length, .snoc ops ops.length ops.length hpre (Nat.le_refl _) (Nat.le_refl _),
      [], 0, rfl, by intro e he; simp at he, by intro e he; simp at he, ?_⟩
    show MetaEq (runOps mem0 ops).2.md _
    rw [List.take_length, specRun_append, runOps_md]
    exact specRun_congr hme _

end inv

section full
variable {crc : Bytes → Nat} {enc : Entry → Bytes} {dec : Bytes → Option Entry}

theorem recover_full (hc : CodecOK crc enc dec) (snap : Option Store) (R : List Entry)
    (hfit : Fits enc R) (hno : NoTx R) :
    recover crc dec snap (logBytes crc enc R) =
      .ok (replay (snap.getD Store.empty) (afterLastCkpt R)) := by
  have h := recover_take_plain hc snap R (logBytes crc enc R).length hfit hno
  have hw : wholeWithin crc (R.map enc) (logBytes crc enc R).length = R.length := by
    have := wholeWithin_full (crc := crc) (R.map enc) (logBytes crc enc R).length (Nat.le_refl _)
    simpa using this
  rw [List.take_length, hw, List.take_length] at h
  exact h

theorem recover_nil (snap : Option Store) :
    recover crc dec snap [] = .ok (snap.getD Store.empty) := by
  simp [recover, entriesOf, parse_nil, fromEntries, allOperations, replay]

end full

/-! #### the writer's bookkeeping -/

theorem Wal.append_file (mode : SyncMode) (w : Wal) (b : Bytes) :
    (Wal.append mode w b).file = w.file ++ b := by
  unfold Wal.append
  simp only []
  split <;> try rfl
  split <;> rfl

theorem Wal.append_immediate (w : Wal) (b : Bytes) :
    (Wal.append .immediate w b).syncedLen = (Wal.append .immediate w b).file.length := by
  simp [Wal.append]

theorem foldl_append_file (crc : Bytes → Nat) (enc : Entry → Bytes) (mode : SyncMode)
    (es : List Entry) (w : Wal) :
    (es.foldl (fun w e => Wal.append mode w (encodeRec crc (enc e))) w).file
      = w.file ++ logBytes crc enc es := by
  induction es generalizing w with
  | nil => simp [logBytes_nil]
  | cons e es ih =>
    rw [List.foldl_cons, ih, Wal.append_file]
    have : e :: es = [e] ++ es := rfl
    rw [this, logBytes_append, logBytes_singleton, List.append_assoc]

theorem foldl_append_immediate (crc : Bytes → Nat) (enc : Entry → Bytes)
    (es : List Entry) (w : Wal) (h : w.syncedLen = w.file.length) :
    (es.foldl (fun w e => Wal.append .immediate w (encodeRec crc (enc e))) w).syncedLen
      = (es.foldl (fun w e => Wal.append .immediate w (encodeRec crc (enc e))) w).file.length := by
  induction es generalizing w with
  | nil => exact h
  | cons e es ih =>
    rw [List.foldl_cons]
    exact ih _ (Wal.append_immediate w _)

theorem Sys.op_file (crc : Bytes → Nat) (enc : Entry → Bytes) (sy : Sys) (o : Op) :
    (Sys.op crc enc sy o).wal.file = sy.wal.file ++ logBytes crc enc (step sy.mem o).1 := by
  simp only [Sys.op, Sys.log]
  exact foldl_append_file crc enc sy.mode _ sy.wal

theorem Sys.op_mem (crc : Bytes → Nat) (enc : Entry → Bytes) (sy : Sys) (o : Op) :
    (Sys.op crc enc sy o).mem = (step sy.mem o).2 := rfl

theorem Sys.op_mode (crc : Bytes → Nat) (enc : Entry → Bytes) (sy : Sys) (o : Op) :
    (Sys.op crc enc sy o).mode = sy.mode := rfl

theorem Sys.op_immediate (crc : Bytes → Nat) (enc : Entry → Bytes) (sy : Sys) (o : Op)
    (hm : sy.mode = .immediate) (h0 : sy.wal.syncedLen = sy.wal.file.length) :
    (Sys.op crc enc sy o).wal.syncedLen = (Sys.op crc enc sy o).wal.file.length := by
  simp only [Sys.op, Sys.log, hm]
  exact foldl_append_immediate crc enc _ sy.wal h0

/-! #### concrete witnesses and the toy codec -/

theorem exists_ok_of_md {x : Except RecErr Store} {m : List (Bytes × Val)}
    (h : (match x with | .ok r => some r.md | .error _ => none) = some m) :
    ∃ r, x = .ok r ∧ r.md = m := by
  cases x with
  | error e => simp at h
  | ok r => exact ⟨r, rfl, by simpa using h⟩


deriving instance DecidableEq for Store
deriving instance DecidableEq for Except

theorem decB_encB (b r : Bytes) : decB (encB b ++ r) = some (b, r) := by
  simp [encB, decB]

theorem toyDec_toyEnc (e : Entry) : toyDec (toyEnc e) = some e := by
  cases e with
  | metaSet k v =>
    obtain ⟨body, emb⟩ := v
    cases emb with
    | none =>
      simp only [toyEnc, List.cons_append, List.append_assoc, toyDec, decB_encB]
    | some x =>
      simp only [toyEnc, List.cons_append, List.append_assoc, toyDec, decB_encB]
  | _ => simp [toyEnc, toyDec]

/-- boolean form of "recovery succeeds and `get k` answers `v`" (for concrete witnesses) -/
def recoverGetIs (x : Except RecErr Store) (k : Bytes) (v : Option Val) : Bool :=
  match x with
  | .ok r => decide (get r k = v)
  | .error _ => false

theorem exists_ok_of_get (x : Except RecErr Store) (k : Bytes) (v : Option Val)
    (h : recoverGetIs x k v = true) : ∃ r, x = .ok r ∧ get r k = v := by
  cases x with
  | error e => simp [recoverGetIs] at h
  | ok r => exact ⟨r, rfl, by simpa [recoverGetIs] using h⟩

end Neumann.Durable
