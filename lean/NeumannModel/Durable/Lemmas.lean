import NeumannModel.Durable.Model
import NeumannModel.Common.FramedLogLemmas
import NeumannModel.Common.Crc32
/-
  C02 — definitions used by the property statements (crash model `Reach`, what "a prefix of
  the writes that contains every acknowledged one" means, assumptions on the opaque codec)
  and the helper lemmas for `Props.lean`.
-/
namespace Neumann.Durable
open Neumann.FramedLog

/-! ### vocabulary of the statements -/

/-- what is assumed of bitcode (`dec ∘ enc = id`) and of the checksum (fits a u32) -/
structure CodecOK (crc : Bytes → Nat) (enc : Entry → Bytes) (dec : Bytes → Option Entry) : Prop where
  dec_enc : ∀ e, dec (enc e) = some e
  crc_lt : ∀ p, crc p < U32

/-- two metadata maps answer every `get` alike (hence also list the same keys) -/
def MetaEq (m m' : List (Bytes × Val)) : Prop := ∀ k, aget m k = aget m' k

/-- every record fits the u32 length field (otherwise the real `append` fails with `EntryTooLarge`) -/
def Fits (enc : Entry → Bytes) (es : List Entry) : Prop := ∀ e ∈ es, (enc e).length < U32

/-- bytes the writer produces for a list of entries -/
def logBytes (crc : Bytes → Nat) (enc : Entry → Bytes) (es : List Entry) : Bytes :=
  encodeAll crc (es.map enc)

/-- per epoch (= one open … crash stretch): the operations issued, and how many of them had been
    acknowledged (returned under `Immediate`, or covered by a later `sync`) when the crash hit -/
abbrev Trace := List (List Op × Nat)

/-- **The crash model.**  Disk states (snapshot file, log file) reachable by any number of rounds
    `recover → issue operations → crash`, where a crash keeps any byte prefix of the log that
    contains (a) everything that was on disk when the log was reopened and (b) the records of
    every acknowledged operation; plus the crash points inside `checkpoint`
    (snapshot renamed into place / marker partly or fully written / log truncated) taken when
    the log is fully synced. -/
inductive Reach (crc : Bytes → Nat) (enc : Entry → Bytes) (dec : Bytes → Option Entry) :
    Option Store → Bytes → Trace → Prop where
  | init : Reach crc enc dec none [] []
  | round {snap f tr} (mem0 : Store) (ops : List Op) (acked n : Nat) :
      Reach crc enc dec snap f tr →
      recover crc dec snap f = .ok mem0 →
      Fits enc (runOps mem0 ops).1 →
      (openRepair f).length ≤ n →
      acked ≤ ops.length →
      (openRepair f ++ logBytes crc enc (runOps mem0 (ops.take acked)).1).length ≤ n →
      Reach crc enc dec snap
        ((openRepair f ++ logBytes crc enc (runOps mem0 ops).1).take n) (tr ++ [(ops, acked)])
  | ckptCrash {snap f tr} (mem0 : Store) (ops : List Op) (id m : Nat) :
      Reach crc enc dec snap f tr →
      recover crc dec snap f = .ok mem0 →
      Fits enc (runOps mem0 ops).1 →
      (enc (.checkpoint id)).length < U32 →
      Reach crc enc dec (some (runOps mem0 ops).2)
        (openRepair f ++ logBytes crc enc (runOps mem0 ops).1
          ++ (encodeRec crc (enc (.checkpoint id))).take m)
        (tr ++ [(ops, ops.length)])
  | ckptDone {snap f tr} (mem0 : Store) (ops : List Op) :
      Reach crc enc dec snap f tr →
      recover crc dec snap f = .ok mem0 →
      Fits enc (runOps mem0 ops).1 →
      Reach crc enc dec (some (runOps mem0 ops).2) [] (tr ++ [(ops, ops.length)])

/-- `H` consists, epoch by epoch and in order, of a prefix of that epoch's operations which
    contains at least the acknowledged ones -/
inductive PrefixOf : Trace → List Op → Prop where
  | nil : PrefixOf [] []
  | snoc {tr H} (ops : List Op) (acked k : Nat) :
      PrefixOf tr H → acked ≤ k → k ≤ ops.length →
      PrefixOf (tr ++ [(ops, acked)]) (H ++ ops.take k)

/-! ### a concrete codec (only to show the hypotheses are satisfiable and to run witnesses) -/

def encB (b : Bytes) : Bytes := b.length :: b

def decB : Bytes → Option (Bytes × Bytes)
  | [] => none
  | n :: r => if n ≤ r.length then some (r.take n, r.drop n) else none

def toyEnc : Entry → Bytes
  | .metaSet k v => 0 :: encB k ++ encB v.body ++ (match v.emb with | none => [0] | some e => 1 :: e)
  | .metaDel k => 1 :: k
  | .embSet id vec => 2 :: id :: vec
  | .embDel id => [3, id]
  | .entCreate k id => 4 :: id :: k
  | .entRemove k => 5 :: k
  | .txBegin t => [6, t]
  | .txCommit t => [7, t]
  | .txAbort t => [8, t]
  | .checkpoint id => [9, id]

def toyDec : Bytes → Option Entry
  | 0 :: r =>
      match decB r with
      | some (k, r1) =>
          match decB r1 with
          | some (b, [0]) => some (.metaSet k ⟨b, none⟩)
          | some (b, 1 :: e) => some (.metaSet k ⟨b, some e⟩)
          | _ => none
      | none => none
  | 1 :: k => some (.metaDel k)
  | 2 :: id :: vec => some (.embSet id vec)
  | [3, id] => some (.embDel id)
  | 4 :: id :: k => some (.entCreate k id)
  | 5 :: k => some (.entRemove k)
  | [6, t] => some (.txBegin t)
  | [7, t] => some (.txCommit t)
  | [8, t] => some (.txAbort t)
  | [9, id] => some (.checkpoint id)
  | _ => none

/-! ### helper lemmas -/

section assoc
variable {α : Type _} {β : Type _} [DecidableEq α]

theorem aget_aerase_eq (m : List (α × β)) (k : α) : aget (aerase m k) k = none := by
  induction m with
  | nil => simp [aerase, aget]
  | cons p m ih =>
    obtain ⟨k', v⟩ := p
    unfold aerase at *
    by_cases h : k' = k
    · simp [h, ih]
    · simp [h, aget, ih]

theorem aget_aerase_ne (m : List (α × β)) (k key : α) (hne : k ≠ key) :
    aget (aerase m k) key = aget m key := by
  induction m with
  | nil => simp [aerase, aget]
  | cons p m ih =>
    obtain ⟨k', v⟩ := p
    unfold aerase at *
    by_cases h : k' = k
    · subst h; simp [aget, hne, ih]
    · simp [h, aget, ih]

theorem aget_aset_eq (m : List (α × β)) (k : α) (v : β) : aget (aset m k v) k = some v := by
  simp [aset, aget]

theorem aget_aset_ne (m : List (α × β)) (k key : α) (v : β) (hne : k ≠ key) :
    aget (aset m k v) key = aget m key := by
  simp [aset, aget, hne, aget_aerase_ne m k key hne]

theorem aerase_of_aget_none (m : List (α × β)) (k : α) (h : aget m k = none) : aerase m k = m := by
  induction m with
  | nil => simp [aerase]
  | cons p m ih =>
    obtain ⟨k', v⟩ := p
    unfold aerase at *
    by_cases hk : k' = k
    · simp [aget, hk] at h
    · simp [aget, hk] at h
      simp [hk, ih h]
end assoc

/-! #### metadata projection of replay -/

def metaApply (m : List (Bytes × Val)) : Entry → List (Bytes × Val)
  | .metaSet k v => aset m k v
  | .metaDel k => aerase m k
  | _ => m

def replayMeta (m : List (Bytes × Val)) (es : List Entry) : List (Bytes × Val) := es.foldl metaApply m

def isNeutral : Entry → Bool
  | .metaSet _ _ => false
  | .metaDel _ => false
  | _ => true

def isTx : Entry → Bool
  | .txBegin _ => true
  | .txCommit _ => true
  | .txAbort _ => true
  | _ => false

def isCkpt : Entry → Bool
  | .checkpoint _ => true
  | _ => false

theorem applyEntry_md (s : Store) (e : Entry) : (applyEntry s e).md = metaApply s.md e := by
  cases e <;> simp only [applyEntry, metaApply]
  split <;> rfl

theorem applyEntry_cache (s : Store) (e : Entry) : (applyEntry s e).cache = s.cache := by
  cases e <;> simp only [applyEntry]
  split <;> rfl

theorem replay_md (s : Store) (es : List Entry) : (replay s es).md = replayMeta s.md es := by
  induction es generalizing s with
  | nil => rfl
  | cons e es ih =>
    simp only [replay, replayMeta, List.foldl_cons] at *
    rw [ih, applyEntry_md]

theorem replay_cache (s : Store) (es : List Entry) : (replay s es).cache = s.cache := by
  induction es generalizing s with
  | nil => rfl
  | cons e es ih =>
    simp only [replay, List.foldl_cons] at *
    rw [ih, applyEntry_cache]

theorem replayMeta_nil (m : List (Bytes × Val)) : replayMeta m [] = m := rfl

theorem replayMeta_cons (m : List (Bytes × Val)) (e : Entry) (es : List Entry) :
    replayMeta m (e :: es) = replayMeta (metaApply m e) es := rfl

theorem replayMeta_append (m : List (Bytes × Val)) (xs ys : List Entry) :
    replayMeta m (xs ++ ys) = replayMeta (replayMeta m xs) ys := by
  simp [replayMeta, List.foldl_append]

theorem metaApply_neutral (m : List (Bytes × Val)) (e : Entry) (h : isNeutral e = true) :
    metaApply m e = m := by
  cases e <;> simp_all [isNeutral, metaApply]

theorem replayMeta_neutral (m : List (Bytes × Val)) (es : List Entry)
    (h : ∀ e ∈ es, isNeutral e = true) : replayMeta m es = m := by
  induction es generalizing m with
  | nil => rfl
  | cons e es ih =>
    rw [replayMeta_cons, metaApply_neutral m e (h e (by simp)), ih m (fun x hx => h x (by simp [hx]))]

/-! #### one operation -/

theorem put_md (s : Store) (k : Bytes) (v : Val) :
    (put s k v).md = if isCacheKey k then s.md else aset s.md k v := by
  unfold put isCacheKey
  split <;> simp_all

theorem put_vocab_md (s : Store) (voc : List (Bytes × Bool)) (k : Bytes) (v : Val) :
    (put { s with vocab := voc } k v).md = (put s k v).md := by
  rw [put_md, put_md]

theorem exists_false_md (s : Store) (k : Bytes) (hc : isCacheKey k = false)
    (h : exists_ s k = false) : aget s.md k = none := by
  unfold exists_ at h
  unfold isCacheKey at hc
  split at h <;> simp_all

theorem delete_md (s : Store) (k : Bytes) :
    (delete s k).1.md = if isCacheKey k then s.md else aerase s.md k := by
  unfold delete
  by_cases hc : isCacheKey k = true
  · simp only [hc, if_true]
    unfold isCacheKey at hc
    have hc' : classify k = .cache := by simpa using hc
    split
    · rfl
    · simp [hc']
  · have hc0 : isCacheKey k = false := by simpa using hc
    simp only [hc0]
    by_cases he : exists_ s k = true
    · simp only [he]
      unfold isCacheKey at hc0
      have hc' : classify k ≠ .cache := by simpa using hc0
      simp
      split <;> simp_all
    · have he0 : exists_ s k = false := by simpa using he
      simp [he0, aerase_of_aget_none _ _ (exists_false_md s k hc0 he0)]

theorem putDurable_fst (s : Store) (k : Bytes) (v : Val) :
    (putDurable s k v).1 = if isCacheKey k then [] else
      if classify k = .embedding then
        match v.emb with
        | some vec => [.embSet (idxGetOrCreate s.vocab k).1 vec, .metaSet k v]
        | none => [.metaSet k v]
      else [.metaSet k v] := by
  unfold putDurable
  by_cases hc : isCacheKey k = true
  · simp [hc]
  · have hc0 : isCacheKey k = false := by simpa using hc
    by_cases hk : classify k = .embedding
    · cases hv : v.emb <;> simp [hc0, hk]
    · simp [hc0, hk]

theorem putDurable_snd_md (s : Store) (k : Bytes) (v : Val) :
    (putDurable s k v).2.md = if isCacheKey k then s.md else aset s.md k v := by
  unfold putDurable
  by_cases hc : isCacheKey k = true
  · simp [hc, put_md]
  · have hc0 : isCacheKey k = false := by simpa using hc
    by_cases hk : classify k = .embedding
    · cases hv : v.emb <;> simp [hc0, hk, put_md]
    · simp [hc0, hk, put_md]

theorem deleteDurable_fst (s : Store) (k : Bytes) :
    (deleteDurable s k).1 = if isCacheKey k then [] else
      (match idxGet s.vocab k with
        | some id => [Entry.embDel id, Entry.entRemove k]
        | none => []) ++ [.metaDel k] := by
  unfold deleteDurable
  by_cases hc : isCacheKey k = true
  · simp [hc]
  · have hc0 : isCacheKey k = false := by simpa using hc
    simp [hc0]
    cases idxGet s.vocab k <;> rfl

theorem deleteDurable_snd_md (s : Store) (k : Bytes) :
    (deleteDurable s k).2.1.md = if isCacheKey k then s.md else aerase s.md k := by
  unfold deleteDurable
  by_cases hc : isCacheKey k = true
  · simp [hc, delete_md]
  · have hc0 : isCacheKey k = false := by simpa using hc
    simp [hc0, delete_md]

theorem step_md (s : Store) (op : Op) : (step s op).2.md = specApply s.md op := by
  cases op with
  | put k v => simp only [step, specApply, putDurable_snd_md]
  | delete k => simp only [step, specApply, deleteDurable_snd_md]

theorem step_replay (s : Store) (op : Op) : replayMeta s.md (step s op).1 = specApply s.md op := by
  cases op with
  | put k v =>
    simp only [step, specApply, putDurable_fst]
    by_cases hc : isCacheKey k = true
    · simp [hc, replayMeta]
    · have hc0 : isCacheKey k = false := by simpa using hc
      by_cases hk : classify k = .embedding
      · cases hv : v.emb <;> simp [hc0, hk, replayMeta, metaApply]
      · simp [hc0, hk, replayMeta, metaApply]
  | delete k =>
    simp only [step, specApply, deleteDurable_fst]
    by_cases hc : isCacheKey k = true
    · simp [hc, replayMeta]
    · have hc0 : isCacheKey k = false := by simpa using hc
      cases hi : idxGet s.vocab k <;> simp [hc0, replayMeta, metaApply]

theorem step_shape (s : Store) (op : Op) :
    (step s op).1 = [] ∨ ∃ pre last, (step s op).1 = pre ++ [last] ∧ ∀ e ∈ pre, isNeutral e = true := by
  cases op with
  | put k v =>
    simp only [step, putDurable_fst]
    by_cases hc : isCacheKey k = true
    · left; simp [hc]
    · have hc0 : isCacheKey k = false := by simpa using hc
      right
      by_cases hk : classify k = .embedding
      · cases hv : v.emb with
        | none => exact ⟨[], .metaSet k v, by simp [hc0, hk], by simp⟩
        | some vec =>
          exact ⟨[.embSet (idxGetOrCreate s.vocab k).1 vec], .metaSet k v, by simp [hc0, hk], by simp [isNeutral]⟩
      · exact ⟨[], .metaSet k v, by simp [hc0, hk], by simp⟩
  | delete k =>
    simp only [step, deleteDurable_fst]
    by_cases hc : isCacheKey k = true
    · left; simp [hc]
    · have hc0 : isCacheKey k = false := by simpa using hc
      right
      refine ⟨_, .metaDel k, by simp only [hc0]; rfl, ?_⟩
      cases hi : idxGet s.vocab k <;> simp [isNeutral]

theorem step_plain (s : Store) (op : Op) :
    ∀ e ∈ (step s op).1, isTx e = false ∧ isCkpt e = false := by
  cases op with
  | put k v =>
    simp only [step, putDurable_fst]
    by_cases hc : isCacheKey k = true
    · simp [hc]
    · have hc0 : isCacheKey k = false := by simpa using hc
      by_cases hk : classify k = .embedding
      · cases hv : v.emb <;> simp [hc0, hk, isTx, isCkpt]
      · simp [hc0, hk, isTx, isCkpt]
  | delete k =>
    simp only [step, deleteDurable_fst]
    by_cases hc : isCacheKey k = true
    · simp [hc]
    · have hc0 : isCacheKey k = false := by simpa using hc
      cases hi : idxGet s.vocab k <;> simp [hc0, isTx, isCkpt]

theorem step_take_neutral (s : Store) (op : Op) (i : Nat) (hi : i < (step s op).1.length) :
    replayMeta s.md ((step s op).1.take i) = s.md := by
  rcases step_shape s op with h | ⟨pre, last, h, hn⟩
  · rw [h] at hi; simp at hi
  · rw [h] at hi ⊢
    simp at hi
    rw [List.take_append_of_le_length (by omega)]
    exact replayMeta_neutral _ _ (fun e he => hn e (List.mem_of_mem_take he))

/-! #### operation lists -/

theorem runOps_nil (s : Store) : runOps s [] = ([], s) := rfl

theorem runOps_cons (s : Store) (op : Op) (ops : List Op) :
    runOps s (op :: ops) = ((step s op).1 ++ (runOps (step s op).2 ops).1, (runOps (step s op).2 ops).2) := rfl

theorem specRun_nil (m : List (Bytes × Val)) : specRun m [] = m := rfl

theorem specRun_cons (m : List (Bytes × Val)) (op : Op) (ops : List Op) :
    specRun m (op :: ops) = specRun (specApply m op) ops := rfl

theorem specRun_append (m : List (Bytes × Val)) (xs ys : List Op) :
    specRun m (xs ++ ys) = specRun (specRun m xs) ys := by
  simp [specRun, List.foldl_append]

theorem runOps_md (s : Store) (ops : List Op) : (runOps s ops).2.md = specRun s.md ops := by
  induction ops generalizing s with
  | nil => rfl
  | cons op ops ih => rw [runOps_cons, specRun_cons, ← step_md]; exact ih _

theorem runOps_replay (s : Store) (ops : List Op) :
    replayMeta s.md (runOps s ops).1 = specRun s.md ops := by
  induction ops generalizing s with
  | nil => rfl
  | cons op ops ih =>
    rw [runOps_cons, specRun_cons, replayMeta_append, step_replay, ← step_md]; exact ih _

theorem runOps_plain (s : Store) (ops : List Op) :
    ∀ e ∈ (runOps s ops).1, isTx e = false ∧ isCkpt e = false := by
  induction ops generalizing s with
  | nil => simp [runOps_nil]
  | cons op ops ih =>
    intro e he
    rw [runOps_cons] at he
    rcases List.mem_append.mp he with h | h
    · exact step_plain s op e h
    · exact ih _ e h

theorem runOps_take_prefix (s : Store) (ops : List Op) (a : Nat) :
    ∃ rest, (runOps s ops).1 = (runOps s (ops.take a)).1 ++ rest := by
  induction ops generalizing s a with
  | nil => exact ⟨[], by simp [runOps_nil]⟩
  | cons op ops ih =>
    cases a with
    | zero => exact ⟨(runOps s (op :: ops)).1, by simp [runOps_nil]⟩
    | succ a =>
      obtain ⟨rest, hrest⟩ := ih (step s op).2 a
      refine ⟨rest, ?_⟩
      rw [List.take_succ_cons, runOps_cons, runOps_cons, hrest]
      simp

/-- GROUP LEMMA: a record-prefix of the log of `ops` replays to the map of an operation-prefix,
    which contains every operation whose records are wholly inside the record-prefix -/
theorem group_prefix (s : Store) (ops : List Op) (i : Nat) :
    ∃ k, k ≤ ops.length ∧
      replayMeta s.md ((runOps s ops).1.take i) = specRun s.md (ops.take k) ∧
      ∀ a, a ≤ ops.length → (runOps s (ops.take a)).1.length ≤ i → a ≤ k := by
  induction ops generalizing s i with
  | nil => exact ⟨0, by simp, by simp [runOps_nil, replayMeta_nil, specRun_nil], by simp⟩
  | cons op ops ih =>
    by_cases hle : (step s op).1.length ≤ i
    · obtain ⟨k, hk, hrep, hall⟩ := ih (step s op).2 (i - (step s op).1.length)
      refine ⟨k + 1, by simp; omega, ?_, ?_⟩
      · rw [runOps_cons, List.take_append, List.take_of_length_le hle, replayMeta_append,
          step_replay, List.take_succ_cons, specRun_cons, ← step_md]
        exact hrep
      · intro a ha hlen
        cases a with
        | zero => omega
        | succ a =>
          rw [List.take_succ_cons, runOps_cons] at hlen
          simp only [List.length_append] at hlen
          have := hall a (by simp at ha; omega) (by omega)
          omega
    · have hlt : i < (step s op).1.length := by omega
      refine ⟨0, by simp, ?_, ?_⟩
      · rw [runOps_cons, List.take_append_of_le_length (by omega), step_take_neutral s op i hlt]
        rfl
      · intro a ha hlen
        cases a with
        | zero => omega
        | succ a =>
          rw [List.take_succ_cons, runOps_cons] at hlen
          simp only [List.length_append] at hlen
          omega

/-! #### `fromEntries` on logs without transaction markers -/

def ckStep (acc : List Entry) : Entry → List Entry
  | .checkpoint _ => []
  | e => acc ++ [e]

/-- entries after the last checkpoint marker -/
def afterLastCkpt (es : List Entry) : List Entry := es.foldl ckStep []

theorem recStep_plain (r : Rec) (e : Entry) (ha : r.active = none) (hb : r.bufs = [])
    (hcm : r.committed = []) (he : isTx e = false) :
    (recStep r e).active = none ∧ (recStep r e).bufs = [] ∧ (recStep r e).committed = [] ∧
      (recStep r e).operations = ckStep r.operations e := by
  cases e <;> simp_all [recStep, ckStep, isTx]

theorem foldl_recStep_plain (es : List Entry) (r : Rec) (ha : r.active = none) (hb : r.bufs = [])
    (hcm : r.committed = []) (he : ∀ e ∈ es, isTx e = false) :
    (es.foldl recStep r).committed = [] ∧
      (es.foldl recStep r).operations = es.foldl ckStep r.operations := by
  induction es generalizing r with
  | nil => exact ⟨hcm, rfl⟩
  | cons e es ih =>
    obtain ⟨h1, h2, h3, h4⟩ := recStep_plain r e ha hb hcm (he e (by simp))
    have := ih (recStep r e) h1 h2 h3 (fun x hx => he x (by simp [hx]))
    simp only [List.foldl_cons]
    rw [this.1, this.2, h4]
    exact ⟨rfl, rfl⟩

theorem allOperations_fromEntries (es : List Entry) (he : ∀ e ∈ es, isTx e = false) :
    allOperations (fromEntries es) = afterLastCkpt es := by
  have := foldl_recStep_plain es {} rfl rfl rfl he
  unfold allOperations fromEntries afterLastCkpt
  rw [this.1, this.2]; simp

theorem foldl_ckStep_plain (acc X : List Entry) (h : ∀ e ∈ X, isCkpt e = false) :
    X.foldl ckStep acc = acc ++ X := by
  induction X generalizing acc with
  | nil => simp
  | cons e X ih =>
    have he : ckStep acc e = acc ++ [e] := by
      have := h e (by simp)
      cases e <;> simp_all [ckStep, isCkpt]
    simp only [List.foldl_cons]
    rw [he, ih _ (fun x hx => h x (by simp [hx]))]; simp

theorem afterLastCkpt_append_plain (S X : List Entry) (h : ∀ e ∈ X, isCkpt e = false) :
    afterLastCkpt (S ++ X) = afterLastCkpt S ++ X := by
  unfold afterLastCkpt
  rw [List.foldl_append, foldl_ckStep_plain _ _ h]

theorem afterLastCkpt_append_ckpt (S : List Entry) (id : Nat) :
    afterLastCkpt (S ++ [.checkpoint id]) = [] := by
  unfold afterLastCkpt
  rw [List.foldl_append]; rfl

theorem afterLastCkpt_nil : afterLastCkpt [] = [] := rfl

/-! #### last write per key: replay is idempotent -/

def writeOf : Entry → Bytes → Option (Option Val)
  | .metaSet k v, key => if k = key then some (some v) else none
  | .metaDel k, key => if k = key then some none else none
  | _, _ => none

def lastWrite : List Entry → Bytes → Option (Option Val)
  | [], _ => none
  | e :: es, key =>
    match lastWrite es key with
    | some r => some r
    | none => writeOf e key

theorem aget_metaApply (m : List (Bytes × Val)) (e : Entry) (key : Bytes) :
    aget (metaApply m e) key = match writeOf e key with | some r => r | none => aget m key := by
  cases e with
  | metaSet k v =>
    by_cases h : k = key
    · subst h; simp [metaApply, writeOf, aget_aset_eq]
    · simp [metaApply, writeOf, h, aget_aset_ne _ _ _ _ h]
  | metaDel k =>
    by_cases h : k = key
    · subst h; simp [metaApply, writeOf, aget_aerase_eq]
    · simp [metaApply, writeOf, h, aget_aerase_ne _ _ _ h]
  | _ => simp [metaApply, writeOf]

theorem aget_replayMeta (m : List (Bytes × Val)) (es : List Entry) (key : Bytes) :
    aget (replayMeta m es) key = match lastWrite es key with | some r => r | none => aget m key := by
  induction es generalizing m with
  | nil => rfl
  | cons e es ih =>
    rw [replayMeta_cons, ih, lastWrite]
    cases h : lastWrite es key with
    | some r => rfl
    | none => simp only [aget_metaApply]

theorem MetaEq.refl (m : List (Bytes × Val)) : MetaEq m m := fun _ => rfl

theorem MetaEq.symm {m m' : List (Bytes × Val)} (h : MetaEq m m') : MetaEq m' m := fun k => (h k).symm

theorem MetaEq.trans {a b c : List (Bytes × Val)} (h1 : MetaEq a b) (h2 : MetaEq b c) : MetaEq a c :=
  fun k => (h1 k).trans (h2 k)

theorem replayMeta_congr {m m' : List (Bytes × Val)} (h : MetaEq m m') (es : List Entry) :
    MetaEq (replayMeta m es) (replayMeta m' es) := by
  intro key
  rw [aget_replayMeta, aget_replayMeta, h key]

theorem replayMeta_idem (m : List (Bytes × Val)) (X : List Entry) :
    MetaEq (replayMeta (replayMeta m X) X) (replayMeta m X) := by
  intro key
  rw [aget_replayMeta (replayMeta m X)]
  cases h : lastWrite X key with
  | some r => simp only; rw [aget_replayMeta, h]
  | none => rfl

theorem specApply_congr {m m' : List (Bytes × Val)} (h : MetaEq m m') (op : Op) :
    MetaEq (specApply m op) (specApply m' op) := by
  cases op with
  | put k v =>
    simp only [specApply]
    split
    · exact h
    · exact replayMeta_congr h [.metaSet k v]
  | delete k =>
    simp only [specApply]
    split
    · exact h
    · exact replayMeta_congr h [.metaDel k]

theorem specRun_congr {m m' : List (Bytes × Val)} (h : MetaEq m m') (ops : List Op) :
    MetaEq (specRun m ops) (specRun m' ops) := by
  induction ops generalizing m m' with
  | nil => exact h
  | cons op ops ih => rw [specRun_cons, specRun_cons]; exact ih (specApply_congr h op)

/-! #### bytes → entries -/

theorem encodeRec_ne_nil (crc : List Nat → Nat) (p : List Nat) : encodeRec crc p ≠ [] := by
  simp [encodeRec, le32]

/-- the end condition of a strict prefix of one record: never a checksum failure -/
theorem parse_torn_end (crc : List Nat → Nat) (dec : List Nat → Bool) (p : List Nat) (m : Nat)
    (hp : p.length < U32) (hm : m < (encodeRec crc p).length) :
    (parse crc dec ((encodeRec crc p).take m)).2 = if m = 0 then .clean else .torn := by
  rw [encodeRec_length] at hm
  rw [parse]
  by_cases h8 : ((encodeRec crc p).take m).length < 8
  · rw [dif_pos h8]
    by_cases h0 : m = 0
    · subst h0; simp
    · simp [h0, encodeRec_ne_nil]
  · rw [dif_neg h8]
    have hm8 : 8 ≤ m := by
      simp only [List.length_take, encodeRec_length] at h8; omega
    have e1 : ((encodeRec crc p).take m).take 4 = le32 p.length := by
      rw [List.take_take]
      have : min 4 m = 4 := by omega
      rw [this]; simp [encodeRec, le32]
    have e3 : (((encodeRec crc p).take m).drop 8).length = m - 8 := by
      simp only [List.length_drop, List.length_take, encodeRec_length]; omega
    simp only [e1, le32_rt _ hp, e3]
    have : m - 8 < p.length := by omega
    have h0 : m ≠ 0 := by omega
    simp [this, h0]

/-- **Crash at any byte, end condition**: replaying a byte prefix of a well-formed log never
    ends in a checksum failure -/
theorem parse_take_end (crc : List Nat → Nat) (dec : List Nat → Bool) (ps : List (List Nat)) (n : Nat)
    (h : ∀ p ∈ ps, GoodRec crc dec p) :
    (parse crc dec ((encodeAll crc ps).take n)).2 ≠ .badCrc := by
  induction ps generalizing n with
  | nil => simp [encodeAll, parse_nil]
  | cons p ps ih =>
    have hp := h p (by simp)
    have henc : encodeAll crc (p :: ps) = encodeRec crc p ++ encodeAll crc ps := by simp [encodeAll]
    rw [henc, List.take_append]
    by_cases hle : (encodeRec crc p).length ≤ n
    · rw [List.take_of_length_le hle, parse_cons crc dec p _ hp]
      exact ih _ (fun q hq => h q (by simp [hq]))
    · have hz : n - (encodeRec crc p).length = 0 := by omega
      rw [hz, List.take_zero, List.append_nil, parse_torn_end crc dec p n hp.1 (by omega)]
      split <;> simp

theorem goodRec_enc {crc : Bytes → Nat} {enc : Entry → Bytes} {dec : Bytes → Option Entry}
    (hc : CodecOK crc enc dec) (e : Entry) (h : (enc e).length < U32) :
    GoodRec crc (fun p => (dec p).isSome) (enc e) :=
  ⟨h, hc.crc_lt _, by simp [hc.dec_enc]⟩

theorem filterMap_dec_enc {enc : Entry → Bytes} {dec : Bytes → Option Entry}
    (h : ∀ e, dec (enc e) = some e) (l : List Entry) : (l.map enc).filterMap dec = l := by
  induction l with
  | nil => rfl
  | cons e l ih => simp [h, ih]

theorem logBytes_append (crc : Bytes → Nat) (enc : Entry → Bytes) (xs ys : List Entry) :
    logBytes crc enc (xs ++ ys) = logBytes crc enc xs ++ logBytes crc enc ys := by
  simp [logBytes, encodeAll_append]

theorem logBytes_nil (crc : Bytes → Nat) (enc : Entry → Bytes) : logBytes crc enc [] = [] := rfl

theorem logBytes_singleton (crc : Bytes → Nat) (enc : Entry → Bytes) (e : Entry) :
    logBytes crc enc [e] = encodeRec crc (enc e) := by
  simp [logBytes, encodeAll]

theorem Fits.take {enc : Entry → Bytes} {R : List Entry} (h : Fits enc R) (j : Nat) : Fits enc (R.take j) :=
  fun e he => h e (List.mem_of_mem_take he)

theorem Fits.append {enc : Entry → Bytes} {xs ys : List Entry} (h1 : Fits enc xs) (h2 : Fits enc ys) :
    Fits enc (xs ++ ys) := by
  intro e he
  rcases List.mem_append.mp he with h | h
  · exact h1 e h
  · exact h2 e h

section bridge
variable {crc : Bytes → Nat} {enc : Entry → Bytes} {dec : Bytes → Option Entry}

theorem entriesOf_take (hc : CodecOK crc enc dec) (R : List Entry) (n : Nat) (hfit : Fits enc R) :
    (entriesOf crc dec ((logBytes crc enc R).take n)).1 = R.take (wholeWithin crc (R.map enc) n) ∧
    (entriesOf crc dec ((logBytes crc enc R).take n)).2 ≠ .badCrc := by
  have hg : ∀ p ∈ R.map enc, GoodRec crc (fun p => (dec p).isSome) p := by
    intro p hp
    obtain ⟨e, he, rfl⟩ := List.mem_map.mp hp
    exact goodRec_enc hc e (hfit e he)
  unfold entriesOf logBytes
  refine ⟨?_, parse_take_end crc _ _ n hg⟩
  simp only []
  rw [parse_take crc _ _ n hg, ← List.map_take, filterMap_dec_enc hc.dec_enc]

/-- **Recovery from any byte prefix of a well-formed log** -/
theorem recover_take (hc : CodecOK crc enc dec) (snap : Option Store) (R : List Entry) (n : Nat)
    (hfit : Fits enc R) :
    recover crc dec snap ((logBytes crc enc R).take n) =
      .ok (replay (snap.getD Store.empty)
        (allOperations (fromEntries (R.take (wholeWithin crc (R.map enc) n))))) := by
  obtain ⟨h1, h2⟩ := entriesOf_take hc R n hfit
  unfold recover
  simp only []
  rw [if_neg h2, h1]

theorem openRepair_logBytes_take (R : List Entry) (n : Nat) (hfit : Fits enc R) :
    openRepair ((logBytes crc enc R).take n) = logBytes crc enc (R.take (wholeWithin crc (R.map enc) n)) := by
  unfold logBytes
  rw [openRepair_take crc _ n, List.map_take]
  intro p hp
  obtain ⟨e, he, rfl⟩ := List.mem_map.mp hp
  exact hfit e he

theorem wholeWithin_full (ps : List (List Nat)) (n : Nat) (h : (encodeAll crc ps).length ≤ n) :
    wholeWithin crc ps n = ps.length := by
  have h1 := wholeWithin_le crc ps n
  have h2 := wholeWithin_ge crc ps ps.length n (Nat.le_refl _) (by simpa using h)
  omega

end bridge

/-! #### the invariant of the crash model -/

def NoTx (R : List Entry) : Prop := ∀ e ∈ R, isTx e = false

theorem NoTx.take {R : List Entry} (h : NoTx R) (j : Nat) : NoTx (R.take j) :=
  fun e he => h e (List.mem_of_mem_take he)

theorem NoTx.append {xs ys : List Entry} (h1 : NoTx xs) (h2 : NoTx ys) : NoTx (xs ++ ys) := by
  intro e he
  rcases List.mem_append.mp he with h | h
  · exact h1 e h
  · exact h2 e h

/-- the log file is a byte prefix of a well-formed, transaction-free log whose surviving records,
    replayed over the snapshot, give the map of the history `H` -/
def Inv (crc : Bytes → Nat) (enc : Entry → Bytes) (snap : Option Store) (f : Bytes) (H : List Op) : Prop :=
  ∃ (R : List Entry) (n : Nat), f = (logBytes crc enc R).take n ∧ Fits enc R ∧ NoTx R ∧
    MetaEq (replayMeta (snap.getD Store.empty).md
      (afterLastCkpt (R.take (wholeWithin crc (R.map enc) n)))) (specRun [] H)

section inv
variable {crc : Bytes → Nat} {enc : Entry → Bytes} {dec : Bytes → Option Entry}

theorem recover_take_plain (hc : CodecOK crc enc dec) (snap : Option Store) (R : List Entry) (n : Nat)
    (hfit : Fits enc R) (hno : NoTx R) :
    recover crc dec snap ((logBytes crc enc R).take n) =
      .ok (replay (snap.getD Store.empty) (afterLastCkpt (R.take (wholeWithin crc (R.map enc) n)))) := by
  rw [recover_take hc snap R n hfit, allOperations_fromEntries _ (hno.take _)]

theorem inv_open (hc : CodecOK crc enc dec) {snap : Option Store} {f : Bytes} {H : List Op}
    (hinv : Inv crc enc snap f H) {mem0 : Store} (hr : recover crc dec snap f = .ok mem0) :
    ∃ S, openRepair f = logBytes crc enc S ∧ Fits enc S ∧ NoTx S ∧
      mem0 = replay (snap.getD Store.empty) (afterLastCkpt S) ∧ MetaEq mem0.md (specRun [] H) := by
  obtain ⟨R, n, rfl, hfit, hno, hme⟩ := hinv
  rw [recover_take_plain hc snap R n hfit hno] at hr
  injection hr with hr
  subst hr
  refine ⟨_, openRepair_logBytes_take R n hfit, hfit.take _, hno.take _, rfl, ?_⟩
  rw [replay_md]; exact hme

theorem take_length_add_append {α : Type _} (l₁ l₂ : List α) (c : Nat) :
    (l₁ ++ l₂).take (l₁.length + c) = l₁ ++ l₂.take c := by
  rw [List.take_append, List.take_of_length_le (by omega)]
  congr 2; omega

/-- which records survive a cut at or after the end of the reopened part -/
theorem take_split (S X : List Entry) (n : Nat) (hn : (logBytes crc enc S).length ≤ n) :
    ∃ i, i ≤ X.length ∧
      (S ++ X).take (wholeWithin crc ((S ++ X).map enc) n) = S ++ X.take i ∧
      ∀ c, c ≤ X.length → (logBytes crc enc S ++ logBytes crc enc (X.take c)).length ≤ n → c ≤ i := by
  have hle : wholeWithin crc ((S ++ X).map enc) n ≤ S.length + X.length := by
    have := wholeWithin_le crc ((S ++ X).map enc) n; simpa using this
  have hge : S.length ≤ wholeWithin crc ((S ++ X).map enc) n := by
    apply wholeWithin_ge crc _ S.length n (by simp)
    rw [← List.map_take]
    have : (S ++ X).take S.length = S := by simp
    rw [this]; exact hn
  refine ⟨wholeWithin crc ((S ++ X).map enc) n - S.length, by omega, ?_, ?_⟩
  · rw [List.take_append, List.take_of_length_le hge]
  · intro c hc hlen
    have := wholeWithin_ge crc ((S ++ X).map enc) (S.length + c) n (by simp; omega) (by
      rw [← List.map_take, take_length_add_append, ← logBytes_append] at *
      exact hlen)
    omega

/-- the `round` step -/
theorem inv_round (hc : CodecOK crc enc dec) {snap : Option Store} {f : Bytes} {H : List Op}
    (hinv : Inv crc enc snap f H) (mem0 : Store) (hr : recover crc dec snap f = .ok mem0)
    (ops : List Op) (acked n : Nat) (hfit : Fits enc (runOps mem0 ops).1)
    (hn : (openRepair f).length ≤ n) (hacked : acked ≤ ops.length)
    (hack : (openRepair f ++ logBytes crc enc (runOps mem0 (ops.take acked)).1).length ≤ n) :
    ∃ k, acked ≤ k ∧ k ≤ ops.length ∧
      Inv crc enc snap ((openRepair f ++ logBytes crc enc (runOps mem0 ops).1).take n) (H ++ ops.take k) := by
  obtain ⟨S, hopen, hSfit, hSno, hmem, hme⟩ := inv_open hc hinv hr
  rw [hopen] at hn hack ⊢
  have hplain := runOps_plain mem0 ops
  obtain ⟨i, hi, htake, hall⟩ := take_split (crc := crc) (enc := enc) S (runOps mem0 ops).1 n hn
  obtain ⟨k, hk, hrep, hgrp⟩ := group_prefix mem0 ops i
  have hak : acked ≤ k := by
    apply hgrp acked hacked
    obtain ⟨rest, hrest⟩ := runOps_take_prefix mem0 ops acked
    apply hall _ (by rw [hrest]; simp)
    have : (runOps mem0 ops).1.take (runOps mem0 (ops.take acked)).1.length
        = (runOps mem0 (ops.take acked)).1 := by rw [hrest]; simp
    rw [this]; exact hack
  refine ⟨k, hak, hk, S ++ (runOps mem0 ops).1, n, by rw [logBytes_append], hSfit.append hfit,
    hSno.append (fun e he => (hplain e he).1), ?_⟩
  rw [htake, afterLastCkpt_append_plain _ _ (fun e he => (hplain e (List.mem_of_mem_take he)).2),
    replayMeta_append, ← replay_md, ← hmem, hrep, specRun_append]
  exact specRun_congr hme _

/-- recovery from a crash anywhere inside or after the checkpoint marker, new snapshot in place -/
theorem inv_ckpt (S recs : List Entry) (hS : Fits enc S) (hR : Fits enc recs) (nS : NoTx S)
    (nR : ∀ e ∈ recs, isTx e = false ∧ isCkpt e = false) (live : Store) (m0 : List (Bytes × Val))
    (hlive : live.md = replayMeta m0 (afterLastCkpt S ++ recs)) (id m : Nat)
    (hid : (enc (.checkpoint id)).length < U32) :
    ∃ (R : List Entry) (n : Nat),
      logBytes crc enc S ++ logBytes crc enc recs ++ (encodeRec crc (enc (.checkpoint id))).take m
        = (logBytes crc enc R).take n ∧ Fits enc R ∧ NoTx R ∧
      MetaEq (replayMeta live.md (afterLastCkpt (R.take (wholeWithin crc (R.map enc) n)))) live.md := by
  refine ⟨(S ++ recs) ++ [.checkpoint id], (logBytes crc enc (S ++ recs)).length + m, ?_, ?_, ?_, ?_⟩
  · rw [logBytes_append _ _ (S ++ recs), take_length_add_append, logBytes_singleton, logBytes_append]
  · exact (hS.append hR).append (by intro e he; simp at he; subst he; exact hid)
  · exact (nS.append (fun e he => (nR e he).1)).append (by intro e he; simp at he; subst he; rfl)
  · obtain ⟨i, hi, htake, -⟩ := take_split (crc := crc) (enc := enc) (S ++ recs) [.checkpoint id]
      ((logBytes crc enc (S ++ recs)).length + m) (by omega)
    rw [htake]
    simp only [List.length_singleton] at hi
    have hi' : i = 0 ∨ i = 1 := by omega
    rcases hi' with rfl | rfl
    · rw [List.take_zero, List.append_nil, afterLastCkpt_append_plain _ _ (fun e he => (nR e he).2), hlive]
      exact replayMeta_idem _ _
    · rw [List.take_of_length_le (by simp), afterLastCkpt_append_ckpt]
      exact MetaEq.refl _

theorem reach_inv (hc : CodecOK crc enc dec) {snap : Option Store} {f : Bytes} {tr : Trace}
    (h : Reach crc enc dec snap f tr) : ∃ H, PrefixOf tr H ∧ Inv crc enc snap f H := by
  induction h with
  | init =>
    exact ⟨[], .nil, [], 0, rfl, by intro e he; simp at he, by intro e he; simp at he, MetaEq.refl _⟩
  | round mem0 ops acked n _ hr hfit hn hacked hack ih =>
    obtain ⟨H, hpre, hinv⟩ := ih
    obtain ⟨k, hak, hk, hinv'⟩ := inv_round hc hinv mem0 hr ops acked n hfit hn hacked hack
    exact ⟨H ++ ops.take k, .snoc ops acked k hpre hak hk, hinv'⟩
  | @ckptCrash snap' f' tr' mem0 ops id m _ hr hfit hid ih =>
    obtain ⟨H, hpre, hinv⟩ := ih
    obtain ⟨S, hopen, hSfit, hSno, hmem, hme⟩ := inv_open hc hinv hr
    have hlive : (runOps mem0 ops).2.md
        = replayMeta (snap'.getD Store.empty).md (afterLastCkpt S ++ (runOps mem0 ops).1) := by
      rw [replayMeta_append, ← replay_md, ← hmem, runOps_replay, runOps_md]
    obtain ⟨R, n, hf, hRfit, hRno, hRme⟩ := inv_ckpt (crc := crc) S (runOps mem0 ops).1 hSfit hfit hSno
      (runOps_plain mem0 ops) (runOps mem0 ops).2 _ hlive id m hid
    refine ⟨H ++ ops.take ops.length, .snoc ops ops.length ops.length hpre (Nat.le_refl _) (Nat.le_refl _),
      R, n, by rw [hopen]; exact hf, hRfit, hRno, ?_⟩
    refine hRme.trans ?_
    rw [List.take_length, specRun_append, runOps_md]
    exact specRun_congr hme _
  | ckptDone mem0 ops _ hr hfit ih =>
    obtain ⟨H, hpre, hinv⟩ := ih
    obtain ⟨S, hopen, hSfit, hSno, hmem, hme⟩ := inv_open hc hinv hr
    refine ⟨H ++ ops.take ops.length, .snoc ops ops.length ops.length hpre (Nat.le_refl _) (Nat.le_refl _),
      [], 0, rfl, by intro e he; simp at he, by intro e he; simp at he, ?_⟩
    show MetaEq (runOps mem0 ops).2.md _
    rw [List.take_length, specRun_append, runOps_md]
    exact specRun_congr hme _

end inv

section full
variable {crc : Bytes → Nat} {enc : Entry → Bytes} {dec : Bytes → Option Entry}

theorem recover_full (hc : CodecOK crc enc dec) (snap : Option Store) (R : List Entry)
    (hfit : Fits enc R) (hno : NoTx R) :
    recover crc dec snap (logBytes crc enc R) =
      .ok (replay (snap.getD Store.empty) (afterLastCkpt R)) := by
  have h := recover_take_plain hc snap R (logBytes crc enc R).length hfit hno
  have hw : wholeWithin crc (R.map enc) (logBytes crc enc R).length = R.length := by
    have := wholeWithin_full (crc := crc) (R.map enc) (logBytes crc enc R).length (Nat.le_refl _)
    simpa using this
  rw [List.take_length, hw, List.take_length] at h
  exact h

theorem recover_nil (snap : Option Store) :
    recover crc dec snap [] = .ok (snap.getD Store.empty) := by
  simp [recover, entriesOf, parse_nil, fromEntries, allOperations, replay]

end full

/-! #### the writer's bookkeeping -/

theorem Wal.append_file (mode : SyncMode) (w : Wal) (b : Bytes) :
    (Wal.append mode w b).file = w.file ++ b := by
  unfold Wal.append
  simp only []
  split <;> try rfl
  split <;> rfl

theorem Wal.append_immediate (w : Wal) (b : Bytes) :
    (Wal.append .immediate w b).syncedLen = (Wal.append .immediate w b).file.length := by
  simp [Wal.append]

theorem foldl_append_file (crc : Bytes → Nat) (enc : Entry → Bytes) (mode : SyncMode)
    (es : List Entry) (w : Wal) :
    (es.foldl (fun w e => Wal.append mode w (encodeRec crc (enc e))) w).file
      = w.file ++ logBytes crc enc es := by
  induction es generalizing w with
  | nil => simp [logBytes_nil]
  | cons e es ih =>
    rw [List.foldl_cons, ih, Wal.append_file]
    have : e :: es = [e] ++ es := rfl
    rw [this, logBytes_append, logBytes_singleton, List.append_assoc]

theorem foldl_append_immediate (crc : Bytes → Nat) (enc : Entry → Bytes)
    (es : List Entry) (w : Wal) (h : w.syncedLen = w.file.length) :
    (es.foldl (fun w e => Wal.append .immediate w (encodeRec crc (enc e))) w).syncedLen
      = (es.foldl (fun w e => Wal.append .immediate w (encodeRec crc (enc e))) w).file.length := by
  induction es generalizing w with
  | nil => exact h
  | cons e es ih =>
    rw [List.foldl_cons]
    exact ih _ (Wal.append_immediate w _)

theorem Sys.op_file (crc : Bytes → Nat) (enc : Entry → Bytes) (sy : Sys) (o : Op) :
    (Sys.op crc enc sy o).wal.file = sy.wal.file ++ logBytes crc enc (step sy.mem o).1 := by
  simp only [Sys.op, Sys.log]
  exact foldl_append_file crc enc sy.mode _ sy.wal

theorem Sys.op_mem (crc : Bytes → Nat) (enc : Entry → Bytes) (sy : Sys) (o : Op) :
    (Sys.op crc enc sy o).mem = (step sy.mem o).2 := rfl

theorem Sys.op_mode (crc : Bytes → Nat) (enc : Entry → Bytes) (sy : Sys) (o : Op) :
    (Sys.op crc enc sy o).mode = sy.mode := rfl

theorem Sys.op_immediate (crc : Bytes → Nat) (enc : Entry → Bytes) (sy : Sys) (o : Op)
    (hm : sy.mode = .immediate) (h0 : sy.wal.syncedLen = sy.wal.file.length) :
    (Sys.op crc enc sy o).wal.syncedLen = (Sys.op crc enc sy o).wal.file.length := by
  simp only [Sys.op, Sys.log, hm]
  exact foldl_append_immediate crc enc _ sy.wal h0

/-! #### the entity index -/

theorem idxGetAux_some {v : List (Bytes × Bool)} {k : Bytes} {n i : Nat}
    (h : idxGetAux v k n = some i) : n ≤ i ∧ v[i - n]? = some (k, true) := by
  induction v generalizing n with
  | nil => simp [idxGetAux] at h
  | cons p r ih =>
    obtain ⟨k', live⟩ := p
    rw [idxGetAux] at h
    split at h
    · rename_i hc
      injection h with h
      subst h
      obtain ⟨h1, h2⟩ := hc
      subst h2
      simp [h1]
    · obtain ⟨h1, h2⟩ := ih h
      refine ⟨by omega, ?_⟩
      have : i - n = (i - (n + 1)) + 1 := by omega
      rw [this, List.getElem?_cons_succ]
      exact h2

theorem idxGet_some {v : List (Bytes × Bool)} {k : Bytes} {i : Nat} (h : idxGet v k = some i) :
    v[i]? = some (k, true) := by
  have := (idxGetAux_some h).2
  simpa using this

theorem idxGet_inj {v : List (Bytes × Bool)} {k1 k2 : Bytes} {i : Nat}
    (h1 : idxGet v k1 = some i) (h2 : idxGet v k2 = some i) : k1 = k2 := by
  have a := idxGet_some h1
  have b := idxGet_some h2
  rw [a] at b
  injection b with b
  injection b

theorem idxGetAux_none {v : List (Bytes × Bool)} {k : Bytes} {n : Nat} :
    idxGetAux v k n = none ↔ (k, true) ∉ v := by
  induction v generalizing n with
  | nil => simp [idxGetAux]
  | cons p r ih =>
    obtain ⟨k', live⟩ := p
    rw [idxGetAux]
    split
    · rename_i hc
      obtain ⟨h1, h2⟩ := hc
      subst h2
      simp [h1]
    · rename_i hc
      rw [ih]
      constructor
      · intro h hm
        rcases List.mem_cons.mp hm with e | e
        · injection e with e1 e2
          exact hc ⟨e2.symm, e1.symm⟩
        · exact h e
      · intro h hm
        exact h (List.mem_cons_of_mem _ hm)

theorem idxGet_none_iff {v : List (Bytes × Bool)} {k : Bytes} : idxGet v k = none ↔ (k, true) ∉ v :=
  idxGetAux_none

theorem idxGetAux_append (v w : List (Bytes × Bool)) (k : Bytes) (n : Nat) :
    idxGetAux (v ++ w) k n =
      match idxGetAux v k n with
      | some i => some i
      | none => idxGetAux w k (n + v.length) := by
  induction v generalizing n with
  | nil => simp [idxGetAux]
  | cons p r ih =>
    obtain ⟨k', live⟩ := p
    rw [List.cons_append, idxGetAux, idxGetAux]
    split
    · rfl
    · rw [ih]
      have : n + 1 + r.length = n + (r.length + 1) := by omega
      simp only [List.length_cons, this]

theorem idxGet_append_ne (v : List (Bytes × Bool)) (k k' : Bytes) (hne : k ≠ k') :
    idxGet (v ++ [(k, true)]) k' = idxGet v k' := by
  unfold idxGet
  rw [idxGetAux_append]
  cases h : idxGetAux v k' 0 with
  | some i => rfl
  | none => simp [idxGetAux, hne]

theorem idxGet_append_self (v : List (Bytes × Bool)) (k : Bytes) (h : idxGet v k = none) :
    idxGet (v ++ [(k, true)]) k = some v.length := by
  unfold idxGet at *
  rw [idxGetAux_append, h]
  simp [idxGetAux]

theorem idxGetOrCreate_get (v : List (Bytes × Bool)) (k : Bytes) :
    idxGet (idxGetOrCreate v k).2 k = some (idxGetOrCreate v k).1 := by
  unfold idxGetOrCreate
  cases h : idxGet v k with
  | some i => simpa using h
  | none => simpa using idxGet_append_self v k h

theorem idxGetOrCreate_get_ne (v : List (Bytes × Bool)) (k k' : Bytes) (hne : k ≠ k') :
    idxGet (idxGetOrCreate v k).2 k' = idxGet v k' := by
  unfold idxGetOrCreate
  cases h : idxGet v k with
  | some i => rfl
  | none => simpa using idxGet_append_ne v k k' hne

theorem idxGetOrCreate_idem (v : List (Bytes × Bool)) (k : Bytes) :
    idxGetOrCreate (idxGetOrCreate v k).2 k = idxGetOrCreate v k := by
  have h := idxGetOrCreate_get v k
  generalize idxGetOrCreate v k = p at h ⊢
  unfold idxGetOrCreate
  rw [h]

theorem idxGetAux_set_ne (v : List (Bytes × Bool)) (k k' : Bytes) (j n : Nat) (hne : k ≠ k')
    (hj : v[j]? = some (k, true)) : idxGetAux (v.set j (k, false)) k' n = idxGetAux v k' n := by
  induction v generalizing j n with
  | nil => simp at hj
  | cons p r ih =>
    cases j with
    | zero =>
      simp only [List.getElem?_cons_zero, Option.some.injEq] at hj
      subst hj
      simp [List.set, idxGetAux, hne]
    | succ j =>
      obtain ⟨k0, live⟩ := p
      simp only [List.getElem?_cons_succ] at hj
      simp only [List.set, idxGetAux]
      rw [ih j (n + 1) hj]

/-- live entries of the vocabulary carry pairwise different keys -/
def LiveNodup (v : List (Bytes × Bool)) : Prop :=
  ∀ (i j : Nat) (k : Bytes), v[i]? = some (k, true) → v[j]? = some (k, true) → i = j

theorem idxRemove_get_ne (v : List (Bytes × Bool)) (k k' : Bytes) (hne : k ≠ k') :
    idxGet (idxRemove v k) k' = idxGet v k' := by
  unfold idxRemove
  cases h : idxGet v k with
  | none => rfl
  | some i => exact idxGetAux_set_ne v k k' i 0 hne (idxGet_some h)

theorem getElem?_lt {α} {l : List α} {i : Nat} {a : α} (h : l[i]? = some a) : i < l.length := by
  rcases Nat.lt_or_ge i l.length with h' | h'
  · exact h'
  · rw [List.getElem?_eq_none h'] at h; cases h

theorem idxRemove_get_self (v : List (Bytes × Bool)) (k : Bytes) (hn : LiveNodup v) :
    idxGet (idxRemove v k) k = none := by
  unfold idxRemove
  cases h : idxGet v k with
  | none => exact h
  | some i =>
    rw [idxGet_none_iff]
    intro hm
    obtain ⟨j, hj⟩ := List.getElem?_of_mem hm
    have hi := idxGet_some h
    by_cases e : i = j
    · subst e
      rw [List.getElem?_set_self (getElem?_lt hi)] at hj
      injection hj with hj
      injection hj with _ hj
      cases hj
    · rw [List.getElem?_set_ne e] at hj
      exact e (hn i j k hi hj)

theorem liveNodup_append {v : List (Bytes × Bool)} {k : Bytes} (hn : LiveNodup v) (h : idxGet v k = none) :
    LiveNodup (v ++ [(k, true)]) := by
  rw [idxGet_none_iff] at h
  have key : ∀ (i : Nat) (k' : Bytes), (v ++ [(k, true)])[i]? = some (k', true) →
      (i < v.length ∧ v[i]? = some (k', true)) ∨ (i = v.length ∧ k' = k) := by
    intro i k' hi
    rcases Nat.lt_or_ge i v.length with hl | hl
    · rw [List.getElem?_append_left hl] at hi
      exact .inl ⟨hl, hi⟩
    · rw [List.getElem?_append_right hl] at hi
      have hlt := getElem?_lt hi
      simp only [List.length_singleton] at hlt
      have : i - v.length = 0 := by omega
      rw [this] at hi
      simp only [List.getElem?_cons_zero, Option.some.injEq, Prod.mk.injEq, and_true] at hi
      exact .inr ⟨by omega, hi.symm⟩
  intro i j k' hi hj
  rcases key i k' hi with ⟨_, a⟩ | ⟨a, a'⟩ <;> rcases key j k' hj with ⟨_, b⟩ | ⟨b, b'⟩
  · exact hn i j k' a b
  · subst b'; exact absurd (List.mem_of_getElem? a) h
  · subst a'; exact absurd (List.mem_of_getElem? b) h
  · omega

theorem liveNodup_getOrCreate {v : List (Bytes × Bool)} (hn : LiveNodup v) (k : Bytes) :
    LiveNodup (idxGetOrCreate v k).2 := by
  unfold idxGetOrCreate
  cases h : idxGet v k with
  | some i => exact hn
  | none => exact liveNodup_append hn h

theorem liveNodup_set {v : List (Bytes × Bool)} (hn : LiveNodup v) (i : Nat) (k : Bytes) :
    LiveNodup (v.set i (k, false)) := by
  intro a b k' ha hb
  have f : ∀ c : Nat, (v.set i (k, false))[c]? = some (k', true) → v[c]? = some (k', true) := by
    intro c hc
    by_cases e : i = c
    · subst e
      have hl : i < v.length := by simpa using getElem?_lt hc
      rw [List.getElem?_set_self hl] at hc
      injection hc with hc; injection hc with _ hc; cases hc
    · rwa [List.getElem?_set_ne e] at hc
  exact hn a b k' (f a ha) (f b hb)

theorem liveNodup_remove {v : List (Bytes × Bool)} (hn : LiveNodup v) (k : Bytes) :
    LiveNodup (idxRemove v k) := by
  unfold idxRemove
  cases h : idxGet v k with
  | none => exact hn
  | some i => exact liveNodup_set hn i k

/-! #### the overlay invariant: what the embedding slab holds for a live `emb:` key is the
    `_embedding` of the key's metadata value -/

def SlabInv (s : Store) : Prop :=
  ∀ (k : Bytes) (id : Nat) (vec : Bytes), classify k = .embedding → idxGet s.vocab k = some id →
    aget s.slab id = some vec → ∃ v, aget s.md k = some v ∧ v.emb = some vec

/-- a live index entry of an `emb:` key has its metadata record -/
def IdxMd (s : Store) : Prop :=
  ∀ (k : Bytes) (id : Nat), classify k = .embedding → idxGet s.vocab k = some id → (aget s.md k).isSome = true

structure Good (s : Store) : Prop where
  nodup : LiveNodup s.vocab
  slab : SlabInv s
  idxmd : IdxMd s

/-- the full observable image of the durable key classes agrees with a key → value map -/
def FullEq (r : Store) (m : List (Bytes × Val)) : Prop :=
  ∀ k, isCacheKey k = false → get r k = aget m k

theorem good_empty : Good Store.empty := by
  refine ⟨?_, ?_, ?_⟩
  · intro i j k h; simp [Store.empty] at h
  · intro k id vec _ h; simp [Store.empty, idxGet, idxGetAux] at h
  · intro k id _ h; simp [Store.empty, idxGet, idxGetAux] at h

/-- **with the invariant, `get` is the metadata map for every durable key class** -/
theorem good_get {s : Store} (hg : Good s) (k : Bytes) (hc : isCacheKey k = false) :
    get s k = aget s.md k := by
  unfold isCacheKey at hc
  have hc' : classify k ≠ .cache := by simpa using hc
  unfold get
  cases hk : classify k <;> simp only [] <;> try (first | rfl | exact absurd hk hc')
  cases hi : idxGet s.vocab k with
  | none => rfl
  | some id =>
    simp only []
    cases hs : aget s.slab id with
    | none => rfl
    | some vec =>
      obtain ⟨v, hv, he⟩ := hg.slab k id vec hk hi hs
      obtain ⟨b, e⟩ := v
      simp only [] at he
      subst he
      simp [hv]

theorem good_fullEq {s : Store} (hg : Good s) {m : List (Bytes × Val)} (h : MetaEq s.md m) : FullEq s m :=
  fun k hc => (good_get hg k hc).trans (h k)

/-- `Good` does not look at the cache -/
theorem good_of_eq {a b : Store} (hg : Good a) (h1 : b.vocab = a.vocab) (h2 : b.slab = a.slab)
    (h3 : b.md = a.md) : Good b := by
  refine ⟨by rw [h1]; exact hg.nodup, ?_, ?_⟩
  · intro k id vec hk hi hs
    rw [h1] at hi; rw [h2] at hs; rw [h3]
    exact hg.slab k id vec hk hi hs
  · intro k id hk hi
    rw [h1] at hi; rw [h3]
    exact hg.idxmd k id hk hi

theorem slabPut_get_self (sl : List (Nat × Bytes)) (id : Nat) (vec : Bytes) :
    aget (slabPut sl id vec) id = if dimOk vec then some vec else none := by
  unfold slabPut
  split
  · exact aget_aset_eq _ _ _
  · exact aget_aerase_eq _ _

theorem slabPut_get_ne (sl : List (Nat × Bytes)) (id id' : Nat) (vec : Bytes) (hne : id ≠ id') :
    aget (slabPut sl id vec) id' = aget sl id' := by
  unfold slabPut
  split
  · exact aget_aset_ne _ _ _ _ hne
  · exact aget_aerase_ne _ _ _ hne

/-- the slab after a put: the entry of the key's id is the usable vector of the value, or absent -/
def putSlab (sl : List (Nat × Bytes)) (id : Nat) (e : Option Bytes) : List (Nat × Bytes) :=
  match e with
  | some vec => slabPut sl id vec
  | none => aerase sl id

theorem putSlab_get_self (sl : List (Nat × Bytes)) (id : Nat) (e : Option Bytes) (vec : Bytes)
    (h : aget (putSlab sl id e) id = some vec) : e = some vec := by
  cases e with
  | none => simp [putSlab, aget_aerase_eq] at h
  | some w =>
    simp only [putSlab, slabPut_get_self] at h
    split at h
    · injection h with h; rw [h]
    · cases h

theorem putSlab_get_ne (sl : List (Nat × Bytes)) (id id' : Nat) (e : Option Bytes) (hne : id ≠ id') :
    aget (putSlab sl id e) id' = aget sl id' := by
  cases e with
  | none => exact aget_aerase_ne _ _ _ hne
  | some w => exact slabPut_get_ne _ _ _ _ hne

/-- a put that goes through the entity index, normal form -/
def putEmb (s : Store) (k : Bytes) (v : Val) : Store :=
  { s with md := aset s.md k v, vocab := (idxGetOrCreate s.vocab k).2,
           slab := putSlab s.slab (idxGetOrCreate s.vocab k).1 v.emb }

theorem put_emb (s : Store) (k : Bytes) (v : Val) (hk : classify k = .embedding) :
    put s k v = putEmb s k v := by
  unfold put putEmb putSlab
  simp only [hk]
  cases v.emb <;> rfl

theorem putDurable_snd_emb (s : Store) (k : Bytes) (v : Val) (hk : classify k = .embedding) :
    (putDurable s k v).2 = putEmb s k v := by
  have hc : isCacheKey k = false := by simp [isCacheKey, hk]
  unfold putDurable
  simp only [hc, hk]
  cases hv : v.emb with
  | none => exact put_emb s k v hk
  | some vec =>
    show put _ k v = _
    rw [put_emb _ k v hk]
    unfold putEmb
    simp only [idxGetOrCreate_idem]

theorem putDurable_snd_plain (s : Store) (k : Bytes) (v : Val) (hk : classify k ≠ .embedding)
    (hc : isCacheKey k = false) :
    (putDurable s k v).2 = { s with md := aset s.md k v } := by
  have hc' : classify k ≠ .cache := by simpa [isCacheKey] using hc
  unfold putDurable
  simp only [hc, hk]
  show put s k v = _
  unfold put
  cases hk' : classify k <;> simp_all

theorem good_putEmb {s : Store} (hg : Good s) (k : Bytes) (v : Val) : Good (putEmb s k v) := by
  refine ⟨liveNodup_getOrCreate hg.nodup k, ?_, ?_⟩
  rotate_left
  · intro k1 id1 hk1 hi
    simp only [putEmb] at hi ⊢
    by_cases e : k = k1
    · subst e; rw [aget_aset_eq]; rfl
    · rw [idxGetOrCreate_get_ne _ _ _ e] at hi
      rw [aget_aset_ne _ _ _ _ e]
      exact hg.idxmd k1 id1 hk1 hi
  intro k1 id1 vec1 hk1 hi hs
  simp only [putEmb] at hi hs ⊢
  by_cases e : k = k1
  · subst e
    rw [idxGetOrCreate_get] at hi
    injection hi with hi
    subst hi
    have := putSlab_get_self _ _ _ _ hs
    exact ⟨v, aget_aset_eq _ _ _, this⟩
  · have hne : (idxGetOrCreate s.vocab k).1 ≠ id1 := by
      intro h
      rw [← h] at hi
      exact e (idxGet_inj (idxGetOrCreate_get s.vocab k) hi)
    rw [idxGetOrCreate_get_ne _ _ _ e] at hi
    rw [putSlab_get_ne _ _ _ _ hne] at hs
    rw [aget_aset_ne _ _ _ _ e]
    exact hg.slab k1 id1 vec1 hk1 hi hs

/-- a write to the metadata map of a key outside the `emb:` class: index and slab untouched -/
theorem good_plain_set {s : Store} (hg : Good s) (k : Bytes) (v : Val) (hk : classify k ≠ .embedding) :
    Good { s with md := aset s.md k v } := by
  refine ⟨hg.nodup, ?_, ?_⟩
  · intro k1 id1 vec1 hk1 hi hs
    have e : k ≠ k1 := by intro h; subst h; exact hk hk1
    simp only [] at hi hs ⊢
    rw [aget_aset_ne _ _ _ _ e]
    exact hg.slab k1 id1 vec1 hk1 hi hs
  · intro k1 id1 hk1 hi
    have e : k ≠ k1 := by intro h; subst h; exact hk hk1
    simp only [] at hi ⊢
    rw [aget_aset_ne _ _ _ _ e]
    exact hg.idxmd k1 id1 hk1 hi

theorem good_putDurable {s : Store} (hg : Good s) (k : Bytes) (v : Val) : Good (putDurable s k v).2 := by
  by_cases hc : isCacheKey k = true
  · have hk : classify k = .cache := by simpa [isCacheKey] using hc
    have : (putDurable s k v).2 = { s with cache := aset s.cache k v } := by
      simp [putDurable, hc, put, hk]
    rw [this]
    exact good_of_eq hg rfl rfl rfl
  · have hc0 : isCacheKey k = false := by simpa using hc
    by_cases hk : classify k = .embedding
    · rw [putDurable_snd_emb s k v hk]
      exact good_putEmb hg k v
    · rw [putDurable_snd_plain s k v hk hc0]
      exact good_plain_set hg k v hk

/-- what the three records of a delete do, normal form -/
def delApplied (s : Store) (k : Bytes) : Store :=
  { s with md := aerase s.md k, vocab := idxRemove s.vocab k,
           slab := match idxGet s.vocab k with
             | some id => aerase s.slab id
             | none => s.slab }

theorem good_delApplied {s : Store} (hg : Good s) (k : Bytes) : Good (delApplied s k) := by
  refine ⟨liveNodup_remove hg.nodup k, ?_, ?_⟩
  rotate_left
  · intro k1 id1 hk1 hi
    simp only [delApplied] at hi ⊢
    by_cases e : k = k1
    · subst e
      rw [idxRemove_get_self _ _ hg.nodup] at hi
      cases hi
    · rw [idxRemove_get_ne _ _ _ e] at hi
      rw [aget_aerase_ne _ _ _ e]
      exact hg.idxmd k1 id1 hk1 hi
  intro k1 id1 vec1 hk1 hi hs
  simp only [delApplied] at hi hs ⊢
  by_cases e : k = k1
  · subst e
    rw [idxRemove_get_self _ _ hg.nodup] at hi
    cases hi
  · rw [idxRemove_get_ne _ _ _ e] at hi
    rw [aget_aerase_ne _ _ _ e]
    have hs' : aget s.slab id1 = some vec1 := by
      cases hik : idxGet s.vocab k with
      | none => rw [hik] at hs; exact hs
      | some id =>
        rw [hik] at hs
        simp only [] at hs
        have hne : id ≠ id1 := by
          intro h; subst h; exact e (idxGet_inj hik hi)
        rwa [aget_aerase_ne _ _ _ hne] at hs
    exact hg.slab k1 id1 vec1 hk1 hi hs'

theorem delete_emb (s : Store) (k : Bytes) (hk : classify k = .embedding) :
    (delete s k).1 = delApplied s k := by
  unfold delete
  by_cases he : exists_ s k = true
  · simp only [he, hk]
    unfold delApplied
    rfl
  · have he0 : exists_ s k = false := by simpa using he
    simp only [he0]
    unfold exists_ at he0
    simp only [hk, Bool.or_eq_false_iff] at he0
    have h1 : idxGet s.vocab k = none := by simpa using he0.1
    have h2 : aget s.md k = none := by simpa using he0.2
    unfold delApplied idxRemove
    simp only [h1, aerase_of_aget_none _ _ h2]
    rfl

theorem delete_plain (s : Store) (k : Bytes) (hk : classify k ≠ .embedding) (hc : isCacheKey k = false) :
    (delete s k).1 = { s with md := aerase s.md k } := by
  have hc' : classify k ≠ .cache := by simpa [isCacheKey] using hc
  unfold delete
  by_cases he : exists_ s k = true
  · simp only [he]
    cases hk' : classify k <;> simp_all
  · have he0 : exists_ s k = false := by simpa using he
    simp only [he0]
    rw [aerase_of_aget_none _ _ (exists_false_md s k hc he0)]
    rfl

theorem good_delete {s : Store} (hg : Good s) (k : Bytes) : Good (delete s k).1 := by
  by_cases hc : isCacheKey k = true
  · have hk : classify k = .cache := by simpa [isCacheKey] using hc
    have : (delete s k).1.vocab = s.vocab ∧ (delete s k).1.slab = s.slab ∧ (delete s k).1.md = s.md := by
      unfold delete
      split <;> simp [hk]
    exact good_of_eq hg this.1 this.2.1 this.2.2
  · have hc0 : isCacheKey k = false := by simpa using hc
    by_cases hk : classify k = .embedding
    · rw [delete_emb s k hk]; exact good_delApplied hg k
    · rw [delete_plain s k hk hc0]
      refine ⟨hg.nodup, ?_, ?_⟩
      · intro k1 id1 vec1 hk1 hi hs
        have e : k ≠ k1 := by intro h; subst h; exact hk hk1
        simp only [] at hi hs ⊢
        rw [aget_aerase_ne _ _ _ e]
        exact hg.slab k1 id1 vec1 hk1 hi hs
      · intro k1 id1 hk1 hi
        have e : k ≠ k1 := by intro h; subst h; exact hk hk1
        simp only [] at hi ⊢
        rw [aget_aerase_ne _ _ _ e]
        exact hg.idxmd k1 id1 hk1 hi

theorem step_delete_snd (s : Store) (k : Bytes) : (step s (.delete k)).2 = (delete s k).1 := by
  simp only [step, deleteDurable]; split <;> rfl

theorem good_step {s : Store} (hg : Good s) (op : Op) : Good (step s op).2 := by
  cases op with
  | put k v => exact good_putDurable hg k v
  | delete k => rw [step_delete_snd]; exact good_delete hg k

theorem good_runOps {s : Store} (hg : Good s) (ops : List Op) : Good (runOps s ops).2 := by
  induction ops generalizing s with
  | nil => exact hg
  | cons op ops ih => rw [runOps_cons]; exact ih (good_step hg op)

/-! #### replay preserves the overlay invariant, record by record -/

theorem applyEntry_metaSet (s : Store) (k : Bytes) (v : Val) :
    applyEntry s (.metaSet k v) =
      if classify k = .embedding then putEmb s k v else { s with md := aset s.md k v } := by
  simp only [applyEntry, putEmb, putSlab]
  split
  · cases v.emb <;> rfl
  · rfl

theorem good_metaSet {s : Store} (hg : Good s) (k : Bytes) (v : Val) : Good (applyEntry s (.metaSet k v)) := by
  rw [applyEntry_metaSet]
  split
  · exact good_putEmb hg k v
  · rename_i hk
    exact good_plain_set hg k v hk

theorem good_embDel {s : Store} (hg : Good s) (id : Nat) : Good (applyEntry s (.embDel id)) := by
  refine ⟨hg.nodup, ?_, fun k1 id1 hk1 hi => hg.idxmd k1 id1 hk1 hi⟩
  intro k1 id1 vec1 hk1 hi hs
  simp only [applyEntry] at hi hs ⊢
  by_cases e : id = id1
  · subst e; rw [aget_aerase_eq] at hs; cases hs
  · rw [aget_aerase_ne _ _ _ e] at hs
    exact hg.slab k1 id1 vec1 hk1 hi hs

theorem good_entRemove {s : Store} (hg : Good s) (k : Bytes) : Good (applyEntry s (.entRemove k)) := by
  refine ⟨liveNodup_remove hg.nodup k, ?_, ?_⟩
  rotate_left
  · intro k1 id1 hk1 hi
    simp only [applyEntry] at hi ⊢
    by_cases e : k = k1
    · subst e; rw [idxRemove_get_self _ _ hg.nodup] at hi; cases hi
    · rw [idxRemove_get_ne _ _ _ e] at hi
      exact hg.idxmd k1 id1 hk1 hi
  intro k1 id1 vec1 hk1 hi hs
  simp only [applyEntry] at hi hs ⊢
  by_cases e : k = k1
  · subst e; rw [idxRemove_get_self _ _ hg.nodup] at hi; cases hi
  · rw [idxRemove_get_ne _ _ _ e] at hi
    exact hg.slab k1 id1 vec1 hk1 hi hs

/-- removing the metadata of a key that is not (or no longer) in the entity index -/
theorem good_metaDel {s : Store} (hg : Good s) (k : Bytes)
    (h : classify k = .embedding → idxGet s.vocab k = none) : Good (applyEntry s (.metaDel k)) := by
  refine ⟨hg.nodup, ?_, ?_⟩
  rotate_left
  · intro k1 id1 hk1 hi
    simp only [applyEntry] at hi ⊢
    by_cases e : k = k1
    · subst e; rw [h hk1] at hi; cases hi
    · rw [aget_aerase_ne _ _ _ e]
      exact hg.idxmd k1 id1 hk1 hi
  intro k1 id1 vec1 hk1 hi hs
  simp only [applyEntry] at hi hs ⊢
  by_cases e : k = k1
  · subst e; rw [h hk1] at hi; cases hi
  · rw [aget_aerase_ne _ _ _ e]
    exact hg.slab k1 id1 vec1 hk1 hi hs

/-- what the replayed store `P` and the store `L` of the writing session share: the metadata
    map and WHICH `emb:` keys are in the entity index (not their ids — replay assigns its own) -/
structure Sim (P L : Store) : Prop where
  md : P.md = L.md
  live : ∀ k, classify k = .embedding → (idxGet P.vocab k).isSome = (idxGet L.vocab k).isSome

theorem sim_refl (s : Store) : Sim s s := ⟨rfl, fun _ _ => rfl⟩

theorem applyEntry_vocab_embDel (s : Store) (id : Nat) : (applyEntry s (.embDel id)).vocab = s.vocab := rfl
theorem applyEntry_vocab_metaDel (s : Store) (k : Bytes) : (applyEntry s (.metaDel k)).vocab = s.vocab := rfl
theorem applyEntry_vocab_entRemove (s : Store) (k : Bytes) :
    (applyEntry s (.entRemove k)).vocab = idxRemove s.vocab k := rfl

theorem replay_cons (s : Store) (e : Entry) (es : List Entry) :
    replay s (e :: es) = replay (applyEntry s e) es := rfl

theorem replay_nil (s : Store) : replay s [] = s := rfl

theorem replay_append (s : Store) (xs ys : List Entry) :
    replay s (xs ++ ys) = replay (replay s xs) ys := by
  simp [replay, List.foldl_append]

/-- liveness of an `emb:` key after a put that goes through the index -/
theorem putEmb_live (s : Store) (k k1 : Bytes) (v : Val) :
    (idxGet (putEmb s k v).vocab k1).isSome = (decide (k = k1) || (idxGet s.vocab k1).isSome) := by
  simp only [putEmb]
  by_cases e : k = k1
  · subst e; rw [idxGetOrCreate_get]; simp
  · rw [idxGetOrCreate_get_ne _ _ _ e]; simp [e]

/-- **one operation**: replaying its records over a store that agrees with the writer's on the
    metadata map and on the set of indexed `emb:` keys keeps the overlay invariant after EVERY
    record, and re-establishes the agreement at the end -/
theorem sim_step {P L : Store} (hP : Good P) (hL : Good L) (hs : Sim P L) (op : Op) :
    (∀ j, Good (replay P ((step L op).1.take j))) ∧ Sim (replay P (step L op).1) (step L op).2 := by
  have hmd : (replay P (step L op).1).md = (step L op).2.md := by
    rw [replay_md, hs.md, step_replay, step_md]
  cases op with
  | put k v =>
    by_cases hc : isCacheKey k = true
    · have hk : classify k = .cache := by simpa [isCacheKey] using hc
      have h1 : (step L (.put k v)).1 = [] := by simp [step, putDurable, hc]
      have h2 : (step L (.put k v)).2.vocab = L.vocab := by simp [step, putDurable, hc, put, hk]
      rw [h1] at hmd ⊢
      refine ⟨fun j => by simpa [replay_nil] using hP, hmd, ?_⟩
      intro k1 hk1; rw [h2]; exact hs.live k1 hk1
    · have hc0 : isCacheKey k = false := by simpa using hc
      have hrec : ∀ j, replay P ((step L (.put k v)).1.take j) = P ∨
          replay P ((step L (.put k v)).1.take j) = applyEntry P (.metaSet k v) := by
        intro j
        simp only [step, putDurable_fst, hc0, Bool.false_eq_true, if_false]
        have hone : ∀ j, replay P ([Entry.metaSet k v].take j) = P ∨
            replay P ([Entry.metaSet k v].take j) = applyEntry P (.metaSet k v) := by
          intro j
          match j with
          | 0 => left; rfl
          | j + 1 => right; simp [replay]
        split
        · cases hv : v.emb with
          | none => exact hone j
          | some vec =>
            simp only []
            match j with
            | 0 => left; rfl
            | 1 => left; simp [replay, applyEntry]
            | j + 2 => right; simp [replay, applyEntry]
        · exact hone j
      have hfull : replay P (step L (.put k v)).1 = applyEntry P (.metaSet k v) := by
        simp only [step, putDurable_fst, hc0, Bool.false_eq_true, if_false]
        split
        · cases hv : v.emb <;> simp [replay, applyEntry, hv]
        · simp [replay]
      refine ⟨?_, hmd, ?_⟩
      · intro j
        rcases hrec j with h | h <;> rw [h]
        · exact hP
        · exact good_metaSet hP k v
      · intro k1 hk1
        rw [hfull, applyEntry_metaSet]
        simp only [step]
        by_cases hk : classify k = .embedding
        · rw [putDurable_snd_emb L k v hk, if_pos hk, putEmb_live, putEmb_live, hs.live k1 hk1]
        · rw [putDurable_snd_plain L k v hk hc0, if_neg hk]
          exact hs.live k1 hk1
  | delete k =>
    have h1 : (step L (.delete k)).1 = (deleteDurable L k).1 := rfl
    rw [step_delete_snd] at hmd ⊢
    rw [h1] at hmd ⊢
    by_cases hc : isCacheKey k = true
    · have hk : classify k = .cache := by simpa [isCacheKey] using hc
      have h1 : (deleteDurable L k).1 = [] := by simp [deleteDurable, hc]
      have h2 : (delete L k).1.vocab = L.vocab := by unfold delete; split <;> simp [hk]
      rw [h1] at hmd ⊢
      refine ⟨fun j => by simpa [replay_nil] using hP, hmd, ?_⟩
      intro k1 hk1; rw [h2]; exact hs.live k1 hk1
    · have hc0 : isCacheKey k = false := by simpa using hc
      rw [deleteDurable_fst, hc0] at hmd ⊢
      simp only [Bool.false_eq_true, if_false] at hmd ⊢
      cases hix : idxGet L.vocab k with
      | none =>
        simp only [hix, List.nil_append] at hmd ⊢
        -- an `emb:` key that the writer did not have in the index is not in the replayed index either
        have hnone : classify k = .embedding → idxGet P.vocab k = none := by
          intro hk
          have := hs.live k hk
          rw [hix] at this
          simpa using this
        refine ⟨?_, hmd, ?_⟩
        · intro j
          match j with
          | 0 => exact hP
          | j + 1 => simpa [replay] using good_metaDel hP k hnone
        · intro k1 hk1
          show (idxGet P.vocab k1).isSome = _
          rw [hs.live k1 hk1]
          by_cases hk : classify k = .embedding
          · rw [delete_emb L k hk]
            simp only [delApplied, idxRemove, hix]
          · rw [delete_plain L k hk hc0]
      | some id =>
        simp only [hix, List.cons_append, List.nil_append] at hmd ⊢
        have g1 := good_embDel hP id
        have g2 := good_entRemove g1 k
        have g3 : Good (applyEntry (applyEntry (applyEntry P (.embDel id)) (.entRemove k)) (.metaDel k)) := by
          apply good_metaDel g2 k
          intro _
          exact idxRemove_get_self _ _ hP.nodup
        refine ⟨?_, hmd, ?_⟩
        · intro j
          match j with
          | 0 => exact hP
          | 1 => exact g1
          | 2 => exact g2
          | j + 3 => simpa [replay] using g3
        · intro k1 hk1
          show (idxGet (idxRemove P.vocab k) k1).isSome = _
          by_cases e : k = k1
          · subst e
            rw [idxRemove_get_self _ _ hP.nodup, delete_emb L k hk1]
            simp only [delApplied]
            rw [idxRemove_get_self _ _ hL.nodup]
          · rw [idxRemove_get_ne _ _ _ e, hs.live k1 hk1]
            by_cases hk : classify k = .embedding
            · rw [delete_emb L k hk]
              simp only [delApplied]
              rw [idxRemove_get_ne _ _ _ e]
            · rw [delete_plain L k hk hc0]

/-- **any record-prefix of the log of `ops` replays to a store that satisfies the overlay
    invariant** (in particular a prefix that ends inside the records of one operation) -/
theorem good_replay_take {P L : Store} (hP : Good P) (hL : Good L) (hs : Sim P L) (ops : List Op) (i : Nat) :
    Good (replay P ((runOps L ops).1.take i)) := by
  induction ops generalizing P L i with
  | nil => simpa [runOps_nil, replay_nil] using hP
  | cons op ops ih =>
    obtain ⟨hpre, hsim⟩ := sim_step hP hL hs op
    rw [runOps_cons]
    by_cases hle : (step L op).1.length ≤ i
    · rw [List.take_append, List.take_of_length_le hle, replay_append]
      have hfull := hpre (step L op).1.length
      rw [List.take_length] at hfull
      exact ih hfull (good_step hL op) hsim _
    · rw [List.take_append_of_le_length (by omega)]
      exact hpre i

/-! #### every slab holds keys of its own class only; `scan` lists readable keys only -/

/-- the metadata slab holds no `_cache:` key, the cache ring only `_cache:` keys, the entity index
    only `emb:` keys (since the fix "only `emb:` keys get an entity-index entry") -/
structure Classed (s : Store) : Prop where
  md : ∀ p ∈ s.md, classify p.1 ≠ .cache
  cache : ∀ p ∈ s.cache, classify p.1 = .cache
  vocab : ∀ p ∈ s.vocab, classify p.1 = .embedding

theorem classed_empty : Classed Store.empty :=
  ⟨by simp [Store.empty], by simp [Store.empty], by simp [Store.empty]⟩

section assoc2
variable {α : Type _} {β : Type _} [DecidableEq α]

theorem mem_aerase {m : List (α × β)} {k : α} {p : α × β} (h : p ∈ aerase m k) : p ∈ m :=
  (List.mem_filter.mp h).1

theorem mem_aset {m : List (α × β)} {k : α} {v : β} {p : α × β} (h : p ∈ aset m k v) :
    p = (k, v) ∨ p ∈ m := by
  simp only [aset, List.mem_cons] at h
  rcases h with h | h
  · exact .inl h
  · exact .inr (mem_aerase h)

theorem aget_isSome_of_mem {m : List (α × β)} {k : α} (h : k ∈ m.map (·.1)) :
    (aget m k).isSome = true := by
  induction m with
  | nil => simp at h
  | cons p m ih =>
    obtain ⟨k', v⟩ := p
    simp only [aget]
    by_cases e : k' = k
    · simp [e]
    · simp only [e, if_false]
      apply ih
      simp only [List.map_cons, List.mem_cons] at h
      rcases h with h | h
      · exact absurd h.symm e
      · exact h
end assoc2

theorem mem_idxGetOrCreate {v : List (Bytes × Bool)} {k : Bytes} {p : Bytes × Bool}
    (h : p ∈ (idxGetOrCreate v k).2) : p ∈ v ∨ p = (k, true) := by
  unfold idxGetOrCreate at h
  cases hi : idxGet v k with
  | some i => simp only [hi] at h; exact .inl h
  | none => simpa [hi] using h

theorem mem_idxRemove {v : List (Bytes × Bool)} {k : Bytes} {p : Bytes × Bool}
    (h : p ∈ idxRemove v k) : p ∈ v ∨ p = (k, false) := by
  unfold idxRemove at h
  cases hi : idxGet v k with
  | none => simp only [hi] at h; exact .inl h
  | some i => simp only [hi] at h; exact List.mem_or_eq_of_mem_set h

theorem classed_putEmb {s : Store} (hc : Classed s) (k : Bytes) (v : Val) (hk : classify k = .embedding) :
    Classed (putEmb s k v) := by
  refine ⟨?_, hc.cache, ?_⟩
  · intro p hp
    rcases mem_aset hp with h | h
    · subst h; simp [hk]
    · exact hc.md p h
  · intro p hp
    rcases mem_idxGetOrCreate hp with h | h
    · exact hc.vocab p h
    · subst h; exact hk

theorem classed_md_set {s : Store} (hc : Classed s) (k : Bytes) (v : Val) (hk : classify k ≠ .cache) :
    Classed { s with md := aset s.md k v } := by
  refine ⟨?_, hc.cache, hc.vocab⟩
  intro p hp
  rcases mem_aset hp with h | h
  · subst h; exact hk
  · exact hc.md p h

theorem classed_md_erase {s : Store} (hc : Classed s) (k : Bytes) :
    Classed { s with md := aerase s.md k } :=
  ⟨fun p hp => hc.md p (mem_aerase hp), hc.cache, hc.vocab⟩

theorem classed_putDurable {s : Store} (hc : Classed s) (k : Bytes) (v : Val) : Classed (putDurable s k v).2 := by
  by_cases hcache : isCacheKey k = true
  · have hk : classify k = .cache := by simpa [isCacheKey] using hcache
    have : (putDurable s k v).2 = { s with cache := aset s.cache k v } := by
      simp [putDurable, hcache, put, hk]
    rw [this]
    refine ⟨hc.md, ?_, hc.vocab⟩
    intro p hp
    rcases mem_aset hp with h | h
    · subst h; exact hk
    · exact hc.cache p h
  · have hc0 : isCacheKey k = false := by simpa using hcache
    have hk' : classify k ≠ .cache := by simpa [isCacheKey] using hc0
    by_cases hk : classify k = .embedding
    · rw [putDurable_snd_emb s k v hk]
      exact classed_putEmb hc k v hk
    · rw [putDurable_snd_plain s k v hk hc0]
      exact classed_md_set hc k v hk'

theorem classed_delApplied {s : Store} (hc : Classed s) (k : Bytes) : Classed (delApplied s k) := by
  refine ⟨fun p hp => hc.md p (mem_aerase hp), hc.cache, ?_⟩
  intro p hp
  simp only [delApplied] at hp
  rcases mem_idxRemove hp with h | h
  · exact hc.vocab p h
  · -- the entry is rewritten only when the key is in the index
    subst h
    cases hi : idxGet s.vocab k with
    | none => simp only [idxRemove, hi] at hp; exact hc.vocab _ hp
    | some i => exact hc.vocab (k, true) (List.mem_of_getElem? (idxGet_some hi))

theorem classed_delete {s : Store} (hc : Classed s) (k : Bytes) : Classed (delete s k).1 := by
  by_cases hcache : isCacheKey k = true
  · have hk : classify k = .cache := by simpa [isCacheKey] using hcache
    unfold delete
    split
    · exact hc
    · simp only [hk]
      exact ⟨hc.md, fun p hp => hc.cache p (mem_aerase hp), hc.vocab⟩
  · have hc0 : isCacheKey k = false := by simpa using hcache
    by_cases hk : classify k = .embedding
    · rw [delete_emb s k hk]; exact classed_delApplied hc k
    · rw [delete_plain s k hk hc0]; exact classed_md_erase hc k

theorem classed_step {s : Store} (hc : Classed s) (op : Op) : Classed (step s op).2 := by
  cases op with
  | put k v => exact classed_putDurable hc k v
  | delete k => rw [step_delete_snd]; exact classed_delete hc k

theorem classed_runOps {s : Store} (hc : Classed s) (ops : List Op) : Classed (runOps s ops).2 := by
  induction ops generalizing s with
  | nil => exact hc
  | cons op ops ih => rw [runOps_cons]; exact ih (classed_step hc op)

/-- records the writer can log: no `MetadataSet` of a `_cache:` key, no `EntityCreate` -/
def EntryOk : Entry → Prop
  | .metaSet k _ => classify k ≠ .cache
  | .entCreate _ _ => False
  | _ => True

theorem classed_applyEntry {s : Store} (hc : Classed s) (e : Entry) (he : EntryOk e) :
    Classed (applyEntry s e) := by
  cases e with
  | metaSet k v =>
    rw [applyEntry_metaSet]
    split
    · rename_i hk; exact classed_putEmb hc k v hk
    · exact classed_md_set hc k v he
  | metaDel k => exact classed_md_erase hc k
  | embSet id vec => exact hc
  | embDel id => exact ⟨hc.md, hc.cache, hc.vocab⟩
  | entCreate k id => exact absurd he (by simp [EntryOk])
  | entRemove k =>
    refine ⟨hc.md, hc.cache, ?_⟩
    intro p hp
    simp only [applyEntry] at hp
    rcases mem_idxRemove hp with h | h
    · exact hc.vocab p h
    · subst h
      cases hi : idxGet s.vocab k with
      | none => simp only [idxRemove, hi] at hp; exact hc.vocab _ hp
      | some i => exact hc.vocab (k, true) (List.mem_of_getElem? (idxGet_some hi))
  | txBegin t => exact hc
  | txCommit t => exact hc
  | txAbort t => exact hc
  | checkpoint id => exact hc

theorem classed_replay {s : Store} (hc : Classed s) (es : List Entry) (he : ∀ e ∈ es, EntryOk e) :
    Classed (replay s es) := by
  induction es generalizing s with
  | nil => exact hc
  | cons e es ih =>
    rw [replay_cons]
    exact ih (classed_applyEntry hc e (he e (by simp))) (fun x hx => he x (by simp [hx]))

theorem step_entryOk (s : Store) (op : Op) : ∀ e ∈ (step s op).1, EntryOk e := by
  cases op with
  | put k v =>
    simp only [step, putDurable_fst]
    by_cases hc : isCacheKey k = true
    · simp [hc]
    · have hc0 : isCacheKey k = false := by simpa using hc
      have hk' : classify k ≠ .cache := by simpa [isCacheKey] using hc0
      by_cases hk : classify k = .embedding
      · cases hv : v.emb <;> simp [hc0, hk, EntryOk]
      · simp [hc0, hk, EntryOk, hk']
  | delete k =>
    simp only [step, deleteDurable_fst]
    by_cases hc : isCacheKey k = true
    · simp [hc]
    · have hc0 : isCacheKey k = false := by simpa using hc
      cases hi : idxGet s.vocab k <;> simp [hc0, EntryOk]

theorem runOps_entryOk (s : Store) (ops : List Op) : ∀ e ∈ (runOps s ops).1, EntryOk e := by
  induction ops generalizing s with
  | nil => simp [runOps_nil]
  | cons op ops ih =>
    intro e he
    rw [runOps_cons] at he
    rcases List.mem_append.mp he with h | h
    · exact step_entryOk s op e h
    · exact ih _ e h

/-- **with the two invariants every key `scan` lists is readable** -/
theorem scan_readable {s : Store} (hg : Good s) (hc : Classed s) :
    ∀ k ∈ scanKeys s, (get s k).isSome = true := by
  intro k hk
  simp only [scanKeys, List.mem_append] at hk
  rcases hk with (hk | hk) | hk
  · -- a key of the metadata slab
    have hmd := aget_isSome_of_mem hk
    obtain ⟨p, hp, rfl⟩ := List.mem_map.mp hk
    have hnc := hc.md p hp
    unfold get
    cases hcl : classify p.1 <;> simp only [] <;> try (first | exact hmd | exact absurd hcl hnc)
    cases hi : idxGet s.vocab p.1 with
    | none => exact hmd
    | some id =>
      simp only []
      cases hs : aget s.slab id with
      | none => exact hmd
      | some vec => rfl
  · -- a live entry of the entity index
    obtain ⟨p, hp, rfl⟩ := List.mem_map.mp hk
    obtain ⟨hpv, hlive⟩ := List.mem_filter.mp hp
    obtain ⟨k, b⟩ := p
    simp only [] at hlive
    subst hlive
    have hcl : classify k = .embedding := hc.vocab _ hpv
    have hsome : ∃ id, idxGet s.vocab k = some id := by
      cases hi : idxGet s.vocab k with
      | some id => exact ⟨id, rfl⟩
      | none => exact absurd hpv (idxGet_none_iff.mp hi)
    obtain ⟨id, hi⟩ := hsome
    have hmd := hg.idxmd k id hcl hi
    unfold get
    simp only [hcl, hi]
    cases hs : aget s.slab id with
    | none => exact hmd
    | some vec => rfl
  · -- a key of the cache ring
    have hca := aget_isSome_of_mem hk
    obtain ⟨p, hp, rfl⟩ := List.mem_map.mp hk
    have hcl := hc.cache p hp
    unfold get
    simp only [hcl]
    exact hca

/-! #### the property for the full observable image -/

/-- **The property for one crash of a fresh store, full observable image**: the recovery function
    `rec` (snapshot, log bytes) applied to the first `n` bytes of the log of `ops` succeeds with a
    store whose `get` answers, for every key outside the `_cache:` class, exactly what the map
    produced by the first `k` operations holds, and every operation whose records lie wholly
    before the cut is among them. -/
def RecoverIsPrefixFull (rec : Option Store → Bytes → Except RecErr Store) (crc : Bytes → Nat)
    (enc : Entry → Bytes) (ops : List Op) (n : Nat) : Prop :=
  ∃ k r, k ≤ ops.length ∧
    rec none ((logBytes crc enc (runOps Store.empty ops).1).take n) = .ok r ∧
    FullEq r (specRun [] (ops.take k)) ∧
    ∀ a, a ≤ ops.length → (logBytes crc enc (runOps Store.empty (ops.take a)).1).length ≤ n → a ≤ k

/-- the same property of the writer BEFORE the fix "only `emb:` keys get an entity-index entry"
    (`runOpsOld`: `put_durable` allocated an entity id and logged an `EmbeddingSet` record for any
    non-cache key whose value carries a vector).  Only used by `…_witness` theorems. -/
def RecoverIsPrefixFullOld (rec : Option Store → Bytes → Except RecErr Store) (crc : Bytes → Nat)
    (enc : Entry → Bytes) (ops : List Op) (n : Nat) : Prop :=
  ∃ k r, k ≤ ops.length ∧
    rec none ((logBytes crc enc (runOpsOld Store.empty ops).1).take n) = .ok r ∧
    FullEq r (specRun [] (ops.take k)) ∧
    ∀ a, a ≤ ops.length → (logBytes crc enc (runOpsOld Store.empty (ops.take a)).1).length ≤ n → a ≤ k

section rounds
variable {crc : Bytes → Nat} {enc : Entry → Bytes} {dec : Bytes → Option Entry}

/-- what recovery computes after a round, in terms of the store the round started from -/
theorem recover_round (hc : CodecOK crc enc dec) {snap : Option Store} {f : Bytes} {H : List Op}
    (hinv : Inv crc enc snap f H) (mem0 : Store) (hr : recover crc dec snap f = .ok mem0)
    (ops : List Op) (n : Nat) (hfit : Fits enc (runOps mem0 ops).1) (hn : (openRepair f).length ≤ n) :
    ∃ i, recover crc dec snap ((openRepair f ++ logBytes crc enc (runOps mem0 ops).1).take n)
      = .ok (replay mem0 ((runOps mem0 ops).1.take i)) := by
  obtain ⟨S, hopen, hSfit, hSno, hmem, -⟩ := inv_open hc hinv hr
  rw [hopen] at hn ⊢
  have hplain := runOps_plain mem0 ops
  obtain ⟨i, -, htake, -⟩ := take_split (crc := crc) (enc := enc) S (runOps mem0 ops).1 n hn
  refine ⟨i, ?_⟩
  rw [← logBytes_append, recover_take_plain hc snap _ n (hSfit.append hfit)
    (hSno.append (fun e he => (hplain e he).1)), htake,
    afterLastCkpt_append_plain _ _ (fun e he => (hplain e (List.mem_of_mem_take he)).2),
    replay_append, ← hmem]

/-- recovery from a log that ends with a complete checkpoint marker returns the snapshot -/
theorem recover_marked (hc : CodecOK crc enc dec) (L : Store) (R : List Entry) (id : Nat)
    (hfit : Fits enc R) (hno : NoTx R) (hid : (enc (.checkpoint id)).length < U32) :
    recover crc dec (some L) (logBytes crc enc R ++ encodeRec crc (enc (.checkpoint id))) = .ok L := by
  have h := recover_full hc (some L) (R ++ [.checkpoint id])
    (hfit.append (by intro e he; simp at he; subst he; exact hid))
    (hno.append (by intro e he; simp at he; subst he; rfl))
  rw [logBytes_append, logBytes_singleton, afterLastCkpt_append_ckpt] at h
  exact h

end rounds

/-! #### log rotation -/

theorem openRepair_nil : openRepair [] = [] := by simp [openRepair]

/-- the writer state after logging `es` under `Immediate` sync with `max_size_bytes = maxSize`
    (`write_entry_no_sync` rotates before a record that would exceed the limit) -/
def rotLog (crc : Bytes → Nat) (enc : Entry → Bytes) (maxSize : Nat) (es : List Entry) : Wal :=
  es.foldl (fun w e => Wal.appendRot .immediate maxSize w (encodeRec crc (enc e))) (Wal.openOn [])

/-- **The property across log rotation**: every operation returned under `Immediate` sync (so all
    are acknowledged) and the crash keeps the whole live log file; recovery, which reads only
    that file, must yield the map of ALL the operations. -/
def RotationKeepsAcked (crc : Bytes → Nat) (enc : Entry → Bytes) (dec : Bytes → Option Entry)
    (maxSize : Nat) (ops : List Op) : Prop :=
  ∃ r, recover crc dec none (rotLog crc enc maxSize (runOps Store.empty ops).1).file = .ok r ∧
    MetaEq r.md (specRun [] ops)

theorem foldl_appendRot_no_rotation (crc : Bytes → Nat) (enc : Entry → Bytes) (maxSize : Nat)
    (es : List Entry) (w : Wal) (h : (w.file ++ logBytes crc enc es).length ≤ maxSize) :
    (es.foldl (fun w e => Wal.appendRot .immediate maxSize w (encodeRec crc (enc e))) w).file
      = w.file ++ logBytes crc enc es := by
  induction es generalizing w with
  | nil => simp [logBytes_nil]
  | cons e es ih =>
    have hsplit : logBytes crc enc (e :: es) = encodeRec crc (enc e) ++ logBytes crc enc es := by
      have : e :: es = [e] ++ es := rfl
      rw [this, logBytes_append, logBytes_singleton]
    rw [hsplit] at h ⊢
    have hno : ¬ (w.file.length + (encodeRec crc (enc e)).length > maxSize) := by
      simp only [List.length_append] at h; omega
    have hstep : Wal.appendRot .immediate maxSize w (encodeRec crc (enc e))
        = Wal.append .immediate w (encodeRec crc (enc e)) := by
      unfold Wal.appendRot; rw [if_neg hno]
    rw [List.foldl_cons, hstep, ih]
    · rw [Wal.append_file, List.append_assoc]
    · rw [Wal.append_file, List.append_assoc]; exact h

/-! #### the four steps of `checkpoint`, whatever the sync mode -/

theorem Sys.crashFile_sync (sy : Sys) (n : Nat) : sy.sync.crashFile n = sy.wal.file := by
  simp only [Sys.crashFile, Sys.sync, Wal.sync]
  exact List.take_of_length_le (Nat.le_max_right _ _)

theorem Wal.append_synced (mode : SyncMode) (w : Wal) (b : Bytes) :
    (Wal.append mode w b).syncedLen = (w.file ++ b).length ∨
    (Wal.append mode w b).syncedLen = w.syncedLen := by
  unfold Wal.append
  cases mode with
  | immediate => left; rfl
  | manual => right; rfl
  | batched m =>
    simp only []
    by_cases h : decide (w.pending + 1 ≥ m) = true
    · left; rw [if_pos h]
    · right; rw [if_neg h]

/-- after the marker step, a crash leaves the synced log plus some byte prefix of the marker -/
theorem Sys.crashFile_marker (crc : Bytes → Nat) (enc : Entry → Bytes) (sy : Sys) (id n : Nat)
    (h : sy.wal.syncedLen = sy.wal.file.length) :
    ∃ m, (sy.ckptMarker crc enc id).crashFile n
      = sy.wal.file ++ (encodeRec crc (enc (.checkpoint id))).take m := by
  have hfile : (sy.ckptMarker crc enc id).wal.file = sy.wal.file ++ encodeRec crc (enc (.checkpoint id)) := by
    simp only [Sys.ckptMarker, Sys.log, List.foldl_cons, List.foldl_nil, Wal.append_file]
  have hsl := Wal.append_synced sy.mode sy.wal (encodeRec crc (enc (.checkpoint id)))
  have hsl' : (sy.ckptMarker crc enc id).wal.syncedLen
      = (Wal.append sy.mode sy.wal (encodeRec crc (enc (.checkpoint id)))).syncedLen := by
    simp only [Sys.ckptMarker, Sys.log, List.foldl_cons, List.foldl_nil]
  unfold Sys.crashFile
  rw [hfile, hsl']
  rcases hsl with e | e
  · refine ⟨(encodeRec crc (enc (.checkpoint id))).length, ?_⟩
    rw [e, List.take_length, List.take_of_length_le (Nat.le_max_right _ _)]
  · rw [e, h]
    refine ⟨max n sy.wal.file.length - sy.wal.file.length, ?_⟩
    have : max n sy.wal.file.length = sy.wal.file.length + (max n sy.wal.file.length - sy.wal.file.length) := by
      have := Nat.le_max_right n sy.wal.file.length; omega
    rw [this, take_length_add_append]
    congr 2
    omega

/-! #### concrete witnesses and the toy codec -/

theorem exists_ok_of_md {x : Except RecErr Store} {m : List (Bytes × Val)}
    (h : (match x with | .ok r => some r.md | .error _ => none) = some m) :
    ∃ r, x = .ok r ∧ r.md = m := by
  cases x with
  | error e => simp at h
  | ok r => exact ⟨r, rfl, by simpa using h⟩


deriving instance DecidableEq for Store
deriving instance DecidableEq for Except

theorem decB_encB (b r : Bytes) : decB (encB b ++ r) = some (b, r) := by
  simp [encB, decB]

theorem toyDec_toyEnc (e : Entry) : toyDec (toyEnc e) = some e := by
  cases e with
  | metaSet k v =>
    obtain ⟨body, emb⟩ := v
    cases emb with
    | none =>
      simp only [toyEnc, List.cons_append, List.append_assoc, toyDec, decB_encB]
    | some x =>
      simp only [toyEnc, List.cons_append, List.append_assoc, toyDec, decB_encB]
  | _ => simp [toyEnc, toyDec]

/-- boolean form of "recovery succeeds and `get k` answers `v`" (for concrete witnesses) -/
def recoverGetIs (x : Except RecErr Store) (k : Bytes) (v : Option Val) : Bool :=
  match x with
  | .ok r => decide (get r k = v)
  | .error _ => false

theorem exists_ok_of_get (x : Except RecErr Store) (k : Bytes) (v : Option Val)
    (h : recoverGetIs x k v = true) : ∃ r, x = .ok r ∧ get r k = v := by
  cases x with
  | error e => simp [recoverGetIs] at h
  | ok r => exact ⟨r, rfl, by simpa [recoverGetIs] using h⟩

/-- boolean form of "the recovery succeeds with a store satisfying `p`" (for concrete witnesses) -/
def okAnd (x : Except RecErr Store) (p : Store → Bool) : Bool :=
  match x with
  | .ok r => p r
  | .error _ => false

theorem exists_ok_of_okAnd {x : Except RecErr Store} {p : Store → Bool} (h : okAnd x p = true) :
    ∃ r, x = .ok r ∧ p r = true := by
  cases x with
  | error e => simp [okAnd] at h
  | ok r => exact ⟨r, rfl, h⟩

end Neumann.Durable
