import NeumannModel.Durable.CkptFs
import NeumannModel.Durable.Rotate
/-
  C02 — the snapshot step of `checkpoint` on real files (`CkptFs.lean`): helper lemmas, the crash
  model `FReach` (disk states WITH the temporary files interrupted checkpoints leave behind), and a
  concrete snapshot codec (only to show the hypotheses are satisfiable and to run witnesses).
-/
namespace Neumann.Durable
open Neumann.FramedLog

/-! ### what the file-system calls of `save_v3` do to the temporary file -/

theorem create_write (d : SnapFs) (a : Bytes) :
    d.create.write a = ⟨d.snap, some a, a.length⟩ := by
  simp [SnapFs.create, SnapFs.write, writeAt]

theorem create_write_write (d : SnapFs) (a b : Bytes) :
    (d.create.write a).write b = ⟨d.snap, some (a ++ b), a.length + b.length⟩ := by
  rw [create_write]
  simp [SnapFs.write, writeAt]

theorem openKeep_write (d : SnapFs) (a : Bytes) :
    d.openKeep.write a = ⟨d.snap, some (a ++ (d.tmp.getD []).drop a.length), a.length⟩ := by
  simp [SnapFs.openKeep, SnapFs.write, writeAt]

theorem openKeep_write_write (d : SnapFs) (a b : Bytes) :
    (d.openKeep.write a).write b
      = ⟨d.snap, some (a ++ b ++ (d.tmp.getD []).drop (a.length + b.length)), a.length + b.length⟩ := by
  rw [openKeep_write]
  simp [SnapFs.write, writeAt]

/-- **the code**: whatever the directory held, the snapshot file is exactly the image, no temporary
    file is left -/
theorem save_create (d : SnapFs) (hdr body : Bytes) :
    SnapFs.save false d hdr body = ⟨some (hdr ++ body), none, 0⟩ := by
  simp only [SnapFs.save, SnapFs.openTmp, Bool.false_eq_true, if_false]
  rw [create_write_write]
  rfl

/-- NOT the code: the bytes of a stale temporary file beyond the image stay behind it -/
theorem save_keep (d : SnapFs) (hdr body : Bytes) :
    SnapFs.save true d hdr body
      = ⟨some (hdr ++ body ++ (d.tmp.getD []).drop (hdr.length + body.length)), none, 0⟩ := by
  simp only [SnapFs.save, SnapFs.openTmp, if_true]
  rw [openKeep_write_write]
  rfl

/-- a crash before the rename: the snapshot file is untouched, the temporary file holds a byte
    prefix of the image -/
theorem saveCrashTmp_shape {d : SnapFs} {hdr body : Bytes} {st : SnapFs}
    (h : st ∈ SnapFs.saveCrashTmp false d hdr body) :
    st.snap = d.snap ∧ ∃ j, j ≤ (hdr ++ body).length ∧ st.tmp = some ((hdr ++ body).take j) := by
  simp only [SnapFs.saveCrashTmp, SnapFs.openTmp, Bool.false_eq_true, if_false, List.mem_append,
    List.mem_map, List.mem_range] at h
  rcases h with ⟨j, hj, rfl⟩ | ⟨j, hj, rfl⟩
  · rw [create_write]
    refine ⟨rfl, j, by simp; omega, ?_⟩
    show some (hdr.take j) = _
    rw [List.take_append_of_le_length (by omega)]
  · rw [create_write_write]
    refine ⟨rfl, hdr.length + j, by simp; omega, ?_⟩
    show some (hdr ++ body.take j) = _
    rw [List.take_length_add_append]

/-! ### recovery from the files = recovery from what the snapshot file holds -/

theorem recoverFs_of_load {crc : Bytes → Nat} {dec : Bytes → Option Entry} {de : Bytes → Option Store}
    {d : SnapFs} {snap : Option Store} (h : loadSnap de d = some snap) (file : Bytes) {r : Store} :
    recoverFs crc dec de d file = .ok r ↔ recover crc dec snap file = .ok r := by
  unfold recoverFs
  rw [h]
  cases hr : recover crc dec snap file with
  | ok r' => simp [hr]
  | error e => simp [hr]

theorem loadSnap_of_snap_eq {de : Bytes → Option Store} {d d' : SnapFs} (h : d'.snap = d.snap) :
    loadSnap de d' = loadSnap de d := by
  unfold loadSnap; rw [h]

theorem loadSnap_save {ser : Store → Bytes} {de : Bytes → Option Store} (hs : ∀ s, de (ser s) = some s)
    (d : SnapFs) (s : Store) :
    loadSnap de (SnapFs.save false d ((ser s).take snapHeaderLen) ((ser s).drop snapHeaderLen))
      = some (some s) := by
  rw [save_create, List.take_append_drop]
  simp [loadSnap, hs]

/-! ### the crash model with the files of the snapshot step -/

/-- **The crash model, temporary files included.**  Disk states (files of the snapshot step, log
    file) reachable by any number of rounds `recover → issue operations → crash`, where the crash
    may fall at EVERY step boundary of a checkpoint: inside the snapshot step (temporary file
    created / any byte prefix of the image written / complete, not renamed — the old snapshot and
    the whole log still in place, the temporary file LEFT BEHIND for whatever comes next), snapshot
    renamed into place with the marker absent, partly written or complete, log truncated.  Every
    later round and every later checkpoint runs on the directory as the earlier crashes left it. -/
inductive FReach (crc : Bytes → Nat) (enc : Entry → Bytes) (dec : Bytes → Option Entry)
    (ser : Store → Bytes) (de : Bytes → Option Store) : SnapFs → Bytes → Trace → Prop where
  | init : FReach crc enc dec ser de SnapFs.empty [] []
  | round {d f tr} (mem0 : Store) (ops : List Op) (acked n : Nat) :
      FReach crc enc dec ser de d f tr →
      recoverFs crc dec de d f = .ok mem0 →
      Fits enc (runOps mem0 ops).1 →
      (openRepair f).length ≤ n →
      acked ≤ ops.length →
      (openRepair f ++ logBytes crc enc (runOps mem0 (ops.take acked)).1).length ≤ n →
      FReach crc enc dec ser de d
        ((openRepair f ++ logBytes crc enc (runOps mem0 ops).1).take n) (tr ++ [(ops, acked)])
  | ckptTmp {d f tr} (mem0 : Store) (ops : List Op) (st : SnapFs) :
      FReach crc enc dec ser de d f tr →
      recoverFs crc dec de d f = .ok mem0 →
      Fits enc (runOps mem0 ops).1 →
      st ∈ SnapFs.saveCrashTmp false d ((ser (runOps mem0 ops).2).take snapHeaderLen)
              ((ser (runOps mem0 ops).2).drop snapHeaderLen) →
      FReach crc enc dec ser de st
        (openRepair f ++ logBytes crc enc (runOps mem0 ops).1) (tr ++ [(ops, ops.length)])
  | ckptMarker {d f tr} (mem0 : Store) (ops : List Op) (id m : Nat) :
      FReach crc enc dec ser de d f tr →
      recoverFs crc dec de d f = .ok mem0 →
      Fits enc (runOps mem0 ops).1 →
      (enc (.checkpoint id)).length < U32 →
      FReach crc enc dec ser de
        (SnapFs.save false d ((ser (runOps mem0 ops).2).take snapHeaderLen)
          ((ser (runOps mem0 ops).2).drop snapHeaderLen))
        (openRepair f ++ logBytes crc enc (runOps mem0 ops).1
          ++ (encodeRec crc (enc (.checkpoint id))).take m)
        (tr ++ [(ops, ops.length)])
  | ckptDone {d f tr} (mem0 : Store) (ops : List Op) :
      FReach crc enc dec ser de d f tr →
      recoverFs crc dec de d f = .ok mem0 →
      Fits enc (runOps mem0 ops).1 →
      FReach crc enc dec ser de
        (SnapFs.save false d ((ser (runOps mem0 ops).2).take snapHeaderLen)
          ((ser (runOps mem0 ops).2).drop snapHeaderLen))
        [] (tr ++ [(ops, ops.length)])

/-- every state of `FReach` is, seen through what its snapshot file holds, a state of `Reach` —
    whatever its temporary file holds -/
theorem freach_sound {crc : Bytes → Nat} {enc : Entry → Bytes} {dec : Bytes → Option Entry}
    {ser : Store → Bytes} {de : Bytes → Option Store} (hs : ∀ s, de (ser s) = some s)
    {d : SnapFs} {f : Bytes} {tr : Trace} (h : FReach crc enc dec ser de d f tr) :
    ∃ snap, loadSnap de d = some snap ∧ Reach crc enc dec snap f tr := by
  induction h with
  | init => exact ⟨none, rfl, Reach.init⟩
  | round mem0 ops acked n _ hr hfit h1 h2 h3 ih =>
    obtain ⟨snap, hl, hre⟩ := ih
    exact ⟨snap, hl, Reach.round mem0 ops acked n hre ((recoverFs_of_load hl _).1 hr) hfit h1 h2 h3⟩
  | @ckptTmp d f tr mem0 ops st _ hr hfit hst ih =>
    obtain ⟨snap, hl, hre⟩ := ih
    refine ⟨snap, ?_, ?_⟩
    · rw [loadSnap_of_snap_eq (saveCrashTmp_shape hst).1]; exact hl
    · have := Reach.round mem0 ops ops.length
        (openRepair f ++ logBytes crc enc (runOps mem0 ops).1).length hre
        ((recoverFs_of_load hl _).1 hr) hfit (by simp) (Nat.le_refl _)
        (by rw [List.take_length]; exact Nat.le_refl _)
      rwa [List.take_length] at this
  | ckptMarker mem0 ops id m _ hr hfit hid ih =>
    obtain ⟨snap, hl, hre⟩ := ih
    exact ⟨_, loadSnap_save hs _ _, Reach.ckptCrash mem0 ops id m hre ((recoverFs_of_load hl _).1 hr) hfit hid⟩
  | ckptDone mem0 ops _ hr hfit ih =>
    obtain ⟨snap, hl, hre⟩ := ih
    exact ⟨_, loadSnap_save hs _ _, Reach.ckptDone mem0 ops hre ((recoverFs_of_load hl _).1 hr) hfit⟩

/-! ### a concrete snapshot codec -/

def encL {α : Type} (f : α → Bytes) (l : List α) : Bytes := l.length :: l.flatMap f

def decL {α : Type} (g : Bytes → Option (α × Bytes)) : Nat → Bytes → Option (List α × Bytes)
  | 0, r => some ([], r)
  | n + 1, r =>
      match g r with
      | none => none
      | some (a, r1) =>
          match decL g n r1 with
          | none => none
          | some (l, r2) => some (a :: l, r2)

def decLs {α : Type} (g : Bytes → Option (α × Bytes)) : Bytes → Option (List α × Bytes)
  | [] => none
  | n :: t => decL g n t

theorem decL_flatMap {α : Type} (f : α → Bytes) (g : Bytes → Option (α × Bytes))
    (h : ∀ a r, g (f a ++ r) = some (a, r)) (l : List α) (r : Bytes) :
    decL g l.length (l.flatMap f ++ r) = some (l, r) := by
  induction l with
  | nil => simp [decL]
  | cons a l ih => simp [decL, List.flatMap_cons, List.append_assoc, h, ih]

theorem decLs_encL {α : Type} (f : α → Bytes) (g : Bytes → Option (α × Bytes))
    (h : ∀ a r, g (f a ++ r) = some (a, r)) (l : List α) (r : Bytes) :
    decLs g (encL f l ++ r) = some (l, r) := by
  simp only [encL, List.cons_append, decLs]
  exact decL_flatMap f g h l r

def encVal (v : Val) : Bytes := encB v.body ++ (match v.emb with | none => [0] | some e => 1 :: encB e)

def decVal (r : Bytes) : Option (Val × Bytes) :=
  match decB r with
  | some (b, 0 :: r1) => some (⟨b, none⟩, r1)
  | some (b, 1 :: r1) =>
      (match decB r1 with
       | some (e, r2) => some (⟨b, some e⟩, r2)
       | none => none)
  | _ => none

theorem decVal_encVal (v : Val) (r : Bytes) : decVal (encVal v ++ r) = some (v, r) := by
  obtain ⟨b, e⟩ := v
  cases e with
  | none => simp [encVal, decVal, List.append_assoc, decB_encB]
  | some e =>
    simp only [encVal, decVal, List.append_assoc, decB_encB, List.cons_append]

def encKV (p : Bytes × Val) : Bytes := encB p.1 ++ encVal p.2

def decKV (r : Bytes) : Option ((Bytes × Val) × Bytes) :=
  match decB r with
  | some (k, r1) =>
      (match decVal r1 with
       | some (v, r2) => some ((k, v), r2)
       | none => none)
  | none => none

theorem decKV_encKV (p : Bytes × Val) (r : Bytes) : decKV (encKV p ++ r) = some (p, r) := by
  simp [encKV, decKV, List.append_assoc, decB_encB, decVal_encVal]

def encKB (p : Bytes × Bool) : Bytes := encB p.1 ++ [if p.2 then 1 else 0]

def decKB (r : Bytes) : Option ((Bytes × Bool) × Bytes) :=
  match decB r with
  | some (k, 0 :: r1) => some ((k, false), r1)
  | some (k, 1 :: r1) => some ((k, true), r1)
  | _ => none

theorem decKB_encKB (p : Bytes × Bool) (r : Bytes) : decKB (encKB p ++ r) = some (p, r) := by
  obtain ⟨k, b⟩ := p
  cases b <;> simp [encKB, decKB, List.append_assoc, decB_encB]

def encNB (p : Nat × Bytes) : Bytes := p.1 :: encB p.2

def decNB : Bytes → Option ((Nat × Bytes) × Bytes)
  | [] => none
  | n :: r =>
      match decB r with
      | some (b, r1) => some ((n, b), r1)
      | none => none

theorem decNB_encNB (p : Nat × Bytes) (r : Bytes) : decNB (encNB p ++ r) = some (p, r) := by
  simp [encNB, decNB, decB_encB]

/-- toy `save_v3` image of a store: the four slabs, each length-prefixed -/
def toySnapSer (s : Store) : Bytes :=
  encL encKV s.md ++ (encL encKV s.cache ++ (encL encKB s.vocab ++ encL encNB s.slab))

/-- toy `load`: the four slabs and NOTHING after them (as zstd / bitcode reject trailing bytes) -/
def toySnapDe (r : Bytes) : Option Store :=
  match decLs decKV r with
  | some (md, r1) =>
      (match decLs decKV r1 with
       | some (cache, r2) =>
           (match decLs decKB r2 with
            | some (vocab, r3) =>
                (match decLs decNB r3 with
                 | some (slab, []) => some ⟨md, cache, vocab, slab⟩
                 | _ => none)
            | none => none)
       | none => none)
  | none => none

theorem toySnapDe_toySnapSer (s : Store) : toySnapDe (toySnapSer s) = some s := by
  obtain ⟨md, cache, vocab, slab⟩ := s
  unfold toySnapDe toySnapSer
  have h4 := decLs_encL encNB decNB decNB_encNB slab []
  rw [List.append_nil] at h4
  simp only [decLs_encL encKV decKV decKV_encKV, decLs_encL encKB decKB decKB_encKB, h4]

/-- boolean forms for concrete witnesses -/
def okAndF (x : Except FRecErr Store) (p : Store → Bool) : Bool :=
  match x with
  | .ok r => p r
  | .error _ => false

def isSnapErr (x : Except FRecErr Store) : Bool :=
  match x with
  | .error .snapshot => true
  | _ => false

theorem exists_ok_of_okAndF {x : Except FRecErr Store} {p : Store → Bool} (h : okAndF x p = true) :
    ∃ r, x = .ok r ∧ p r = true := by
  cases x with
  | error e => simp [okAndF] at h
  | ok r => exact ⟨r, rfl, h⟩

/-- the shortest history on which the way the temporary file is opened matters: two puts; a
    checkpoint interrupted when the image is completely in the temporary file, not yet renamed
    (the log is untouched); recovery; one delete (the next image is SHORTER); a checkpoint that
    completes; recovery.  `keep = false` is the code. -/
def staleTmpScenario (keep : Bool) : Except FRecErr Store :=
  let crc : Bytes → Nat := fun _ => 0
  let fy0 : FSys := ⟨.immediate, Wal.openOn [], Store.empty, SnapFs.empty⟩
  let fy1 := [Op.put [97] ⟨[1, 1, 1, 1], none⟩, Op.put [98] ⟨[2], none⟩].foldl (FSys.op crc toyEnc) fy0
  let img := toySnapSer fy1.mem
  let left := (SnapFs.saveCrashTmp keep fy1.fs (img.take snapHeaderLen) (img.drop snapHeaderLen)).getLast?.getD fy1.fs
  match recoverFs crc toyDec toySnapDe left fy1.wal.file with
  | .error e => .error e
  | .ok mem1 =>
      let fy2 : FSys := ⟨.immediate, Wal.openOn fy1.wal.file, mem1, left⟩
      let fy3 := FSys.op crc toyEnc fy2 (Op.delete [97])
      let fy4 := FSys.checkpoint crc toyEnc toySnapSer keep fy3 0
      recoverFs crc toyDec toySnapDe fy4.fs (fy4.crashFile 0)

end Neumann.Durable
