import NeumannModel.Durable.Failing
/-
  C02 — the step boundaries of `TensorWal::rotate` (`LogDir.rotateSteps`): helper lemmas.
  `rotate` removes the oldest segment, shifts the others up by one name, renames the live file to
  `.1` and creates a fresh live file.  No rename overwrites a file that still holds records (its
  target was vacated by the step before), so at every step boundary every record of the live
  file and of every segment but the oldest is still in SOME file; but from the moment the live
  file is renamed, the file recovery reads is missing or empty.
-/
namespace Neumann.Durable

/-- some file of the directory has exactly the content `c` -/
def LogDir.holds (d : LogDir) (c : Bytes) : Prop := d.live = some c ∨ ∃ n, aget d.segs n = some c

theorem renameSeg_live (d : LogDir) (a b : Nat) : (d.renameSeg a b).live = d.live := by
  unfold LogDir.renameSeg; split <;> rfl

theorem renameSeg_src_empty (d : LogDir) (a b : Nat) (hab : a ≠ b) : aget (d.renameSeg a b).segs a = none := by
  unfold LogDir.renameSeg
  cases h : aget d.segs a with
  | none => simpa using h
  | some c =>
    simp only []
    rw [aget_aset_ne _ _ _ _ (Ne.symm hab), aget_aerase_eq]

theorem renameSeg_keeps (d : LogDir) (a b : Nat) (hab : a ≠ b) (hb : aget d.segs b = none) (n : Nat) (c : Bytes)
    (h : aget d.segs n = some c) : ∃ n', aget (d.renameSeg a b).segs n' = some c := by
  unfold LogDir.renameSeg
  cases ha : aget d.segs a with
  | none => exact ⟨n, by simpa using h⟩
  | some ca =>
    simp only []
    by_cases e : n = a
    · subst e
      rw [ha] at h
      injection h with h
      subst h
      exact ⟨b, aget_aset_eq _ _ _⟩
    · have hnb : n ≠ b := by intro e'; subst e'; rw [hb] at h; cases h
      exact ⟨n, by rw [aget_aset_ne _ _ _ _ (Ne.symm hnb), aget_aerase_ne _ _ _ (Ne.symm e)]; exact h⟩

/-- the shifting loop: every state keeps the live file and every segment content, and leaves the
    name `.1` free at the end -/
theorem shift_keeps (d : LogDir) (i : Nat) (hfree : aget d.segs (i + 1) = none) :
    (∀ st ∈ d.shift i, st.live = d.live ∧ ∀ n c, aget d.segs n = some c → ∃ n', aget st.segs n' = some c) ∧
    ((d.shift i).getLast?.getD d).live = d.live ∧
    (∀ n c, aget d.segs n = some c → ∃ n', aget ((d.shift i).getLast?.getD d).segs n' = some c) ∧
    aget ((d.shift i).getLast?.getD d).segs 1 = none := by
  induction i generalizing d with
  | zero =>
    refine ⟨by intro st hst; simp [LogDir.shift] at hst, rfl, fun n c h => ⟨n, h⟩, hfree⟩
  | succ i ih =>
    have hab : i + 1 ≠ i + 2 := by omega
    have hk := renameSeg_keeps d (i + 1) (i + 2) hab hfree
    have hl := renameSeg_live d (i + 1) (i + 2)
    obtain ⟨h1, h2, h3, h4⟩ := ih (d.renameSeg (i + 1) (i + 2)) (renameSeg_src_empty d (i + 1) (i + 2) hab)
    have hlast : ((d.shift (i + 1)).getLast?.getD d)
        = (((d.renameSeg (i + 1) (i + 2)).shift i).getLast?.getD (d.renameSeg (i + 1) (i + 2))) := by
      simp only [LogDir.shift]
      cases hs : (d.renameSeg (i + 1) (i + 2)).shift i with
      | nil => simp
      | cons x xs =>
        simp only [List.getLast?_cons_cons]
        cases hq : (x :: xs).getLast? with
        | none => simp at hq
        | some v => rfl
    refine ⟨?_, ?_, ?_, ?_⟩
    · intro st hst
      simp only [LogDir.shift, List.mem_cons] at hst
      rcases hst with rfl | hst
      · exact ⟨hl, hk⟩
      · obtain ⟨a, b⟩ := h1 st hst
        refine ⟨a.trans hl, ?_⟩
        intro n c h
        obtain ⟨n1, hn1⟩ := hk n c h
        exact b n1 c hn1
    · rw [hlast, h2, hl]
    · intro n c h
      rw [hlast]
      obtain ⟨n1, hn1⟩ := hk n c h
      exact h3 n1 c hn1
    · rw [hlast]; exact h4

theorem mem_rotateSteps {m : Nat} {d st : LogDir} (h : st ∈ d.rotateSteps m) :
    let d0 : LogDir := { d with segs := aerase d.segs m }
    let d2 := ((LogDir.shift d0 (m - 1)).getLast?.getD d0).retire
    st = d0 ∨ st ∈ LogDir.shift d0 (m - 1) ∨ st = d2 ∨ st = { d2 with live := some [] } := by
  simp only [LogDir.rotateSteps, List.mem_append, List.mem_cons, List.mem_singleton, List.not_mem_nil,
    or_false] at h
  rcases h with (h | h) | h | h
  · exact .inl h
  · exact .inr (.inl h)
  · exact .inr (.inr (.inl h))
  · exact .inr (.inr (.inr h))

end Neumann.Durable
