import NeumannModel.Graph.Conc
/-
  C05 — footprints of `create_edge` (after its id allocation) and `delete_edge`, and the facts the
  disjoint-footprint theorem needs about them.
-/
set_option linter.unusedSimpArgs false
set_option linter.unusedVariables false
namespace Neumann.Graph

theorem stays_addTo {F W : Key → Prop} {k : Key} {e : Nat} {c : Prog} (hF : F k) (hW : W k)
    (hc : ∀ m, Stays F W c m) : ∀ m, Stays F W (addTo k e c) m := by
  intro m; unfold addTo
  exact .acq _ _ _ (.get _ _ _ hF (.put _ _ _ _ hW (.rel _ _ _ (hc _))))

theorem stays_rmFrom {F W : Key → Prop} {k : Key} {e : Nat} {c : Prog} (hF : F k) (hW : W k)
    (hc : ∀ m, Stays F W c m) : ∀ m, Stays F W (rmFrom k e c) m := by
  intro m; unfold rmFrom
  refine .acq _ _ _ (.get _ _ _ hF ?_)
  cases m k with
  | none => exact .rel _ _ _ (hc _)
  | some val => exact .put _ _ _ _ hW (.rel _ _ _ (hc _))

/-- `create_edge(a, b)` after the existence checks, with its (pre-assigned) id `eid` -/
def createEdgeTh (eid a b : Nat) (d : Bool) (ty v : Nat) : Th where
  p := createEdgeFrom eid a b d ty v
  F := fun k => k = .node a ∨ k = .node b ∨ k = .edge eid ∨ k = .out a ∨ k = .inn b ∨
        (d = false ∧ (k = .out b ∨ k = .inn a))
  W := fun k => k = .edge eid ∨ k = .out a ∨ k = .inn b ∨ (d = false ∧ (k = .out b ∨ k = .inn a))

theorem createEdgeTh_ok (eid a b : Nat) (d : Bool) (ty v : Nat) (m0 : KV)
    (hf : edgeAt m0 eid = none) (ha : nodeEx m0 a = true) (hb : nodeEx m0 b = true) :
    let t := createEdgeTh eid a b d ty v
    (∀ m, Stays t.F t.W t.p m) ∧ (∀ k, t.W k → t.F k) ∧
    (∀ m', WF m' → (∀ k, t.F k → m' k = m0 k) → WF (finalOf t.p m')) := by
  refine ⟨?_, ?_, ?_⟩
  · intro m
    cases d with
    | true =>
      simp only [createEdgeTh, createEdgeFrom, if_true]
      refine .put _ _ _ _ (by simp) ?_
      exact stays_addTo (by simp) (by simp) (stays_addTo (by simp) (by simp) (fun m => .done _ m)) _
    | false =>
      simp only [createEdgeTh, createEdgeFrom, Bool.false_eq_true, if_false]
      refine .put _ _ _ _ (by simp) ?_
      exact stays_addTo (by simp) (by simp) (stays_addTo (by simp) (by simp)
        (stays_addTo (by simp) (by simp) (stays_addTo (by simp) (by simp) (fun m => .done _ m)))) _
  · intro k hk; simp only [createEdgeTh] at hk ⊢; grind
  · intro m' hwf hag
    simp only [createEdgeTh] at hag ⊢
    apply wf_createEdgeFrom ⟨m', 0, 0⟩ eid a b d ty v hwf
    · show edgeAt m' eid = none
      unfold edgeAt; rw [hag _ (by simp)]; exact hf
    · show nodeEx m' a = true
      unfold nodeEx; rw [hag _ (by simp)]; exact ha
    · show nodeEx m' b = true
      unfold nodeEx; rw [hag _ (by simp)]; exact hb

/-- `delete_edge(e)` of an existing edge with record `r` -/
def deleteEdgeTh (e : Nat) (r : EdgeRec) : Th where
  p := deleteEdgeProg e
  F := fun k => k = .edge e ∨ k = .out r.src ∨ k = .inn r.dst ∨
        (r.directed = false ∧ (k = .out r.dst ∨ k = .inn r.src))
  W := fun k => k = .edge e ∨ k = .out r.src ∨ k = .inn r.dst ∨
        (r.directed = false ∧ (k = .out r.dst ∨ k = .inn r.src))

theorem stays_deleteEdgeBody (e : Nat) (r : EdgeRec) :
    ∀ m, Stays (deleteEdgeTh e r).F (deleteEdgeTh e r).W (deleteEdgeBody e r) m := by
  intro m
  have tail : ∀ m, Stays (deleteEdgeTh e r).F (deleteEdgeTh e r).W
      (.del (.edge e) fun ok => .done (if ok then .ok else .storage)) m :=
    fun m => .del _ _ _ (by simp [deleteEdgeTh]) (.done _ _)
  cases hd : r.directed with
  | true =>
    simp only [deleteEdgeBody, hd, if_true]
    exact stays_rmFrom (by simp [deleteEdgeTh]) (by simp [deleteEdgeTh])
      (stays_rmFrom (by simp [deleteEdgeTh]) (by simp [deleteEdgeTh]) tail) _
  | false =>
    simp only [deleteEdgeBody, hd, Bool.false_eq_true, if_false]
    exact stays_rmFrom (by simp [deleteEdgeTh]) (by simp [deleteEdgeTh])
      (stays_rmFrom (by simp [deleteEdgeTh]) (by simp [deleteEdgeTh])
        (stays_rmFrom (by simp [deleteEdgeTh, hd]) (by simp [deleteEdgeTh, hd])
          (stays_rmFrom (by simp [deleteEdgeTh, hd]) (by simp [deleteEdgeTh, hd]) tail))) _

theorem deleteEdgeTh_ok (e : Nat) (r : EdgeRec) (m0 : KV) (hr : m0 (.edge e) = some (.edge r)) :
    let t := deleteEdgeTh e r
    Stays t.F t.W t.p m0 ∧ (∀ k, t.W k → t.F k) ∧
    (∀ m', WF m' → (∀ k, t.F k → m' k = m0 k) → WF (finalOf t.p m')) := by
  refine ⟨?_, fun k hk => hk, ?_⟩
  · show Stays _ _ (deleteEdgeProg e) m0
    unfold deleteEdgeProg
    refine .get _ _ _ (by simp [deleteEdgeTh]) ?_
    simp only [hr, edgeOf]
    exact stays_deleteEdgeBody e r m0
  · intro m' hwf hag
    have hr' : m' (.edge e) = some (.edge r) := by rw [hag _ (by simp [deleteEdgeTh])]; exact hr
    have : finalOf (deleteEdgeTh e r).p m' = (run1 (deleteEdgeBody e r) ⟨m', 0, 0⟩).2.kv := by
      simp only [finalOf, deleteEdgeTh, deleteEdgeProg, run1, hr', edgeOf]
    rw [this]
    exact wf_deleteEdgeBody ⟨m', 0, 0⟩ e r hwf (by simp [edgeAt, hr', edgeOf])

end Neumann.Graph
