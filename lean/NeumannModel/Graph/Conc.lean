import NeumannModel.Graph.Lemmas
/-
  C05 — interleavings of programs with pairwise disjoint footprints.

  A thread is a program together with a read/write footprint `F` and a write footprint `W ⊆ F`
  (sets of store keys).  `Stays F W p m`: run alone from store `m`, `p` reads only keys of `F`,
  writes only keys of `W`, and allocates no id.  If the write footprint of every thread is
  disjoint from the footprint of every other thread, every complete interleaving ends in the
  store obtained by running the programs one after the other.
-/
set_option linter.unusedSimpArgs false
set_option linter.unusedVariables false
namespace Neumann.Graph

inductive Stays (F W : Key → Prop) : Prog → KV → Prop where
  | done (r : Res) (m : KV) : Stays F W (.done r) m
  | get (k : Key) (c : Option Val → Prog) (m : KV) :
      F k → Stays F W (c (m k)) m → Stays F W (.get k c) m
  | ex (k : Key) (c : Bool → Prog) (m : KV) :
      F k → Stays F W (c (m k).isSome) m → Stays F W (.ex k c) m
  | put (k : Key) (v : Val) (c : Prog) (m : KV) :
      W k → Stays F W c (upd m k (some v)) → Stays F W (.put k v c) m
  | del (k : Key) (c : Bool → Prog) (m : KV) :
      W k → Stays F W (c (m k).isSome) (upd m k none) → Stays F W (.del k c) m
  | acq (k : Key) (c : Prog) (m : KV) : Stays F W c m → Stays F W (.acq k c) m
  | rel (k : Key) (c : Prog) (m : KV) : Stays F W c m → Stays F W (.rel k c) m

/-- final store of a program run alone (the counters play no role for `Stays` programs) -/
def finalOf (p : Prog) (m : KV) : KV := (run1 p ⟨m, 0, 0⟩).2.kv

theorem run1_kv_counters (p : Prog) {F W : Key → Prop} {m : KV} (h : Stays F W p m) (a b : Nat) :
    (run1 p ⟨m, a, b⟩).2.kv = finalOf p m ∧ (run1 p ⟨m, a, b⟩).2.nn = a ∧ (run1 p ⟨m, a, b⟩).2.ne = b := by
  induction h generalizing a b with
  | done r m => exact ⟨rfl, rfl, rfl⟩
  | get k c m _ _ ih => simpa [run1, finalOf] using ih a b
  | ex k c m _ _ ih => simpa [run1, finalOf] using ih a b
  | put k v c m _ _ ih => simpa [run1, finalOf] using ih a b
  | del k c m _ _ ih => simpa [run1, finalOf] using ih a b
  | acq k c m _ ih => simpa [run1, finalOf] using ih a b
  | rel k c m _ ih => simpa [run1, finalOf] using ih a b

/-- frame: a `Stays` program behaves the same on any store that agrees on its footprint, and leaves
    every key outside its write footprint alone -/
theorem Stays.frame {F W : Key → Prop} (hWF : ∀ k, W k → F k) {p : Prog} {m : KV} (h : Stays F W p m) :
    ∀ m', (∀ k, F k → m k = m' k) →
      Stays F W p m' ∧ (∀ k, F k → finalOf p m k = finalOf p m' k) ∧
      (∀ k, ¬ W k → finalOf p m' k = m' k) := by
  induction h with
  | done r m => intro m' _; exact ⟨.done r m', fun _ _ => by simp [finalOf, run1, *], fun _ _ => rfl⟩
  | get k c m hk _ ih =>
    intro m' hag
    have e := hag k hk
    obtain ⟨h1, h2, h3⟩ := ih m' hag
    rw [e] at h1 h2 h3
    exact ⟨.get k c m' hk h1, fun x hx => by simpa [finalOf, run1, e] using h2 x hx,
      fun x hx => by simpa [finalOf, run1] using h3 x hx⟩
  | ex k c m hk _ ih =>
    intro m' hag
    have e := hag k hk
    obtain ⟨h1, h2, h3⟩ := ih m' hag
    rw [e] at h1 h2 h3
    exact ⟨.ex k c m' hk h1, fun x hx => by simpa [finalOf, run1, e] using h2 x hx,
      fun x hx => by simpa [finalOf, run1] using h3 x hx⟩
  | put k v c m hk _ ih =>
    intro m' hag
    have hag' : ∀ x, F x → upd m k (some v) x = upd m' k (some v) x := by
      intro x hx; simp only [upd]; split
      · rfl
      · exact hag x hx
    obtain ⟨h1, h2, h3⟩ := ih _ hag'
    refine ⟨.put k v c m' hk h1, fun x hx => by simpa [finalOf, run1] using h2 x hx, ?_⟩
    intro x hx
    have := h3 x hx
    have hne : x ≠ k := by rintro rfl; exact hx hk
    simpa [finalOf, run1, upd, hne] using this
  | del k c m hk _ ih =>
    intro m' hag
    have e := hag k (hWF k hk)
    have hag' : ∀ x, F x → upd m k none x = upd m' k none x := by
      intro x hx; simp only [upd]; split
      · rfl
      · exact hag x hx
    obtain ⟨h1, h2, h3⟩ := ih _ hag'
    rw [e] at h1 h2 h3
    refine ⟨.del k c m' hk h1, fun x hx => by simpa [finalOf, run1, e] using h2 x hx, ?_⟩
    intro x hx
    have := h3 x hx
    have hne : x ≠ k := by rintro rfl; exact hx hk
    simpa [finalOf, run1, upd, hne] using this
  | acq k c m _ ih =>
    intro m' hag
    obtain ⟨h1, h2, h3⟩ := ih m' hag
    exact ⟨.acq k c m' h1, fun x hx => by simpa [finalOf, run1] using h2 x hx,
      fun x hx => by simpa [finalOf, run1] using h3 x hx⟩
  | rel k c m _ ih =>
    intro m' hag
    obtain ⟨h1, h2, h3⟩ := ih m' hag
    exact ⟨.rel k c m' h1, fun x hx => by simpa [finalOf, run1] using h2 x hx,
      fun x hx => by simpa [finalOf, run1] using h3 x hx⟩

/-- one atomic step of a `Stays` program: the rest still stays, reaches the same final store, and
    only a key of `W` may have changed -/
theorem Stays.step {F W : Key → Prop} {p : Prog} {m : KV} (h : Stays F W p m) (a b : Nat) :
    ∃ p' m', p.step ⟨m, a, b⟩ = (p', ⟨m', a, b⟩) ∧ Stays F W p' m' ∧ finalOf p' m' = finalOf p m ∧
      (∀ k, ¬ W k → m' k = m k) := by
  cases h with
  | done r m => exact ⟨_, _, rfl, .done r m, rfl, fun _ _ => rfl⟩
  | get k c m hk h' => exact ⟨_, _, rfl, h', by simp [finalOf, run1], fun _ _ => rfl⟩
  | ex k c m hk h' => exact ⟨_, _, rfl, h', by simp [finalOf, run1], fun _ _ => rfl⟩
  | put k v c m hk h' =>
    refine ⟨_, _, rfl, h', by simp [finalOf, run1], ?_⟩
    intro x hx; have : x ≠ k := by rintro rfl; exact hx hk
    simp [upd, this]
  | del k c m hk h' =>
    refine ⟨_, _, rfl, h', by simp [finalOf, run1], ?_⟩
    intro x hx; have : x ≠ k := by rintro rfl; exact hx hk
    simp [upd, this]
  | acq k c m h' => exact ⟨_, _, rfl, h', by simp [finalOf, run1], fun _ _ => rfl⟩
  | rel k c m h' => exact ⟨_, _, rfl, h', by simp [finalOf, run1], fun _ _ => rfl⟩


/-! ### threads with footprints -/

structure Th where
  p : Prog
  F : Key → Prop
  W : Key → Prop

/-- one atomic step of thread `i` per schedule entry: a store call, or a lock acquire / release,
    which this semantics treats as a step WITHOUT effect — `runP` ignores the list locks, so it has
    all the interleavings of the locked semantics and more (programs of `Stays` threads allocate no
    ids) -/
def runP : List Th → List Nat → St → List Th × St
  | ts, [], s => (ts, s)
  | ts, i :: sched, s =>
    match ts[i]? with
    | none => runP ts sched s
    | some t => runP (ts.set i { t with p := (t.p.step s).1 }) sched (t.p.step s).2

def Th.isDone (t : Th) : Bool := match t.p with | .done _ => true | _ => false

/-- running the programs one after the other -/
def serial : List Th → KV → KV
  | [], m => m
  | t :: ts, m => serial ts (finalOf t.p m)

def Disjoint (ts : List Th) : Prop :=
  ∀ (i j : Nat) (t u : Th), i ≠ j → ts[i]? = some t → ts[j]? = some u → ∀ k, t.W k → ¬ u.F k

def SubFW (ts : List Th) : Prop := ∀ (i : Nat) (t : Th), ts[i]? = some t → ∀ k, t.W k → t.F k

theorem serial_char (ts : List Th) : ∀ (m : KV),
    (∀ (i : Nat) (t : Th), ts[i]? = some t → Stays t.F t.W t.p m) → SubFW ts → Disjoint ts →
    (∀ (i : Nat) (t : Th), ts[i]? = some t → ∀ k, t.F k → serial ts m k = finalOf t.p m k) ∧
    (∀ k, (∀ (i : Nat) (t : Th), ts[i]? = some t → ¬ t.W k) → serial ts m k = m k) := by
  induction ts with
  | nil => intro m _ _ _; exact ⟨fun i t h => by simp at h, fun _ _ => rfl⟩
  | cons t ts ih =>
    intro m hst hsub hdisj
    have hst0 := hst 0 t rfl
    have hsub0 := hsub 0 t rfl
    obtain ⟨_, _, hout⟩ := hst0.frame hsub0 m (fun _ _ => rfl)
    -- the tail threads see the same store on their footprints
    have hag : ∀ (j : Nat) (u : Th), ts[j]? = some u → ∀ k, u.F k → m k = finalOf t.p m k := by
      intro j u hu k hk
      have : ¬ t.W k := fun hw => hdisj 0 (j + 1) t u (by omega) rfl (by simpa using hu) k hw hk
      exact (hout k this).symm
    have hst' : ∀ (j : Nat) (u : Th), ts[j]? = some u → Stays u.F u.W u.p (finalOf t.p m) := by
      intro j u hu
      exact ((hst (j + 1) u (by simpa using hu)).frame (hsub (j + 1) u (by simpa using hu)) _ (hag j u hu)).1
    have hsub' : SubFW ts := fun j u hu => hsub (j + 1) u (by simpa using hu)
    have hdisj' : Disjoint ts := fun i j a b hij ha hb =>
      hdisj (i + 1) (j + 1) a b (by omega) (by simpa using ha) (by simpa using hb)
    obtain ⟨ih1, ih2⟩ := ih (finalOf t.p m) hst' hsub' hdisj'
    refine ⟨?_, ?_⟩
    · intro i u hu k hk
      cases i with
      | zero =>
        simp at hu; subst hu
        show serial ts (finalOf t.p m) k = _
        apply ih2
        intro j u hu hw
        exact hdisj (j + 1) 0 u t (by omega) (by simpa using hu) rfl k hw hk
      | succ j =>
        simp at hu
        show serial ts (finalOf t.p m) k = _
        rw [ih1 j u hu k hk]
        exact (((hst (j + 1) u (by simpa using hu)).frame (hsub (j + 1) u (by simpa using hu)) _
          (hag j u hu)).2.1 k hk).symm
    · intro k hk
      show serial ts (finalOf t.p m) k = _
      rw [ih2 k (fun j u hu => hk (j + 1) u (by simpa using hu))]
      exact hout k (hk 0 t rfl)

theorem serial_wf (ts : List Th) : ∀ (m : KV), WF m →
    (∀ (i : Nat) (t : Th), ts[i]? = some t → Stays t.F t.W t.p m) → SubFW ts → Disjoint ts →
    (∀ (i : Nat) (t : Th), ts[i]? = some t → ∀ m', WF m' → (∀ k, t.F k → m' k = m k) → WF (finalOf t.p m')) →
    WF (serial ts m) := by
  induction ts with
  | nil => intro m h _ _ _ _; exact h
  | cons t ts ih =>
    intro m hwf hst hsub hdisj hpres
    have hst0 := hst 0 t rfl
    have hsub0 := hsub 0 t rfl
    obtain ⟨_, _, hout⟩ := hst0.frame hsub0 m (fun _ _ => rfl)
    have hag : ∀ (j : Nat) (u : Th), ts[j]? = some u → ∀ k, u.F k → m k = finalOf t.p m k := by
      intro j u hu k hk
      have : ¬ t.W k := fun hw => hdisj 0 (j + 1) t u (by omega) rfl (by simpa using hu) k hw hk
      exact (hout k this).symm
    apply ih (finalOf t.p m) (hpres 0 t rfl m hwf (fun _ _ => rfl))
    · intro j u hu
      exact ((hst (j + 1) u (by simpa using hu)).frame (hsub (j + 1) u (by simpa using hu)) _ (hag j u hu)).1
    · exact fun j u hu => hsub (j + 1) u (by simpa using hu)
    · exact fun i j a b hij ha hb =>
        hdisj (i + 1) (j + 1) a b (by omega) (by simpa using ha) (by simpa using hb)
    · intro j u hu m' hwf' hag'
      apply hpres (j + 1) u (by simpa using hu) m' hwf'
      intro k hk; rw [hag' k hk]; exact (hag j u hu k hk).symm


/-! ### any interleaving = the serial run -/

structure Good (ts0 : List Th) (m0 : KV) (ts : List Th) (m : KV) : Prop where
  len : ts.length = ts0.length
  rel : ∀ (i : Nat) (t : Th), ts[i]? = some t → ∃ t0, ts0[i]? = some t0 ∧ t.F = t0.F ∧ t.W = t0.W ∧
    Stays t.F t.W t.p m ∧ ∀ k, t.F k → finalOf t.p m k = finalOf t0.p m0 k
  out : ∀ k, (∀ (i : Nat) (t0 : Th), ts0[i]? = some t0 → ¬ t0.W k) → m k = m0 k

theorem good_init (ts0 : List Th) (m0 : KV)
    (hst : ∀ (i : Nat) (t : Th), ts0[i]? = some t → Stays t.F t.W t.p m0) : Good ts0 m0 ts0 m0 :=
  ⟨rfl, fun i t h => ⟨t, h, rfl, rfl, hst i t h, fun _ _ => rfl⟩, fun _ _ => rfl⟩

theorem runP_good (ts0 : List Th) (m0 : KV) (hsub : SubFW ts0) (hdisj : Disjoint ts0) (sched : List Nat) :
    ∀ (ts : List Th) (s : St), Good ts0 m0 ts s.kv →
      Good ts0 m0 (runP ts sched s).1 (runP ts sched s).2.kv := by
  induction sched with
  | nil => intro ts s h; exact h
  | cons i sched ih =>
    intro ts s hg
    simp only [runP]
    cases hti : ts[i]? with
    | none => exact ih ts s hg
    | some t =>
      simp only
      apply ih
      obtain ⟨t0, ht0, eF, eW, hstay, hfin⟩ := hg.rel i t hti
      obtain ⟨p', m', hstep, hstay', hfin', hout'⟩ := hstay.step s.nn s.ne
      have hs : (⟨s.kv, s.nn, s.ne⟩ : St) = s := rfl
      rw [hs] at hstep
      rw [hstep]
      have hi : i < ts.length := by
        rcases Nat.lt_or_ge i ts.length with h | h
        · exact h
        · rw [List.getElem?_eq_none h] at hti; cases hti
      refine ⟨by simp [hg.len], ?_, ?_⟩
      · intro j u hu
        rw [List.getElem?_set] at hu
        by_cases hij : i = j
        · subst hij
          simp [hi] at hu; subst hu
          exact ⟨t0, ht0, eF, eW, hstay', fun k hk => by rw [hfin']; exact hfin k hk⟩
        · simp [hij] at hu
          obtain ⟨u0, hu0, eF', eW', hstayu, hfinu⟩ := hg.rel j u hu
          have hag : ∀ k, u.F k → s.kv k = m' k := by
            intro k hk
            have : ¬ t.W k := by
              intro hw; rw [eW] at hw; rw [eF'] at hk
              exact hdisj i j t0 u0 hij ht0 hu0 k hw hk
            exact (hout' k this).symm
          have hsubu : ∀ k, u.W k → u.F k := by
            intro k hk; rw [eW'] at hk; rw [eF']; exact hsub j u0 hu0 k hk
          obtain ⟨f1, f2, _⟩ := hstayu.frame hsubu m' hag
          exact ⟨u0, hu0, eF', eW', f1, fun k hk => by rw [← f2 k hk]; exact hfinu k hk⟩
      · intro k hk
        have : ¬ t.W k := by rw [eW]; exact hk i t0 ht0
        show m' k = m0 k
        rw [hout' k this]; exact hg.out k hk

theorem finalOf_done (t : Th) (h : t.isDone = true) (m : KV) : finalOf t.p m = m := by
  unfold Th.isDone at h
  cases hp : t.p <;> simp [hp] at h
  simp [finalOf, run1]

/-- If the write footprint of every thread is disjoint from the footprint of every other thread,
    every interleaving that lets all threads finish ends in the store of the serial run. -/
theorem disjoint_interleaving_serial (ts0 : List Th) (m0 : KV) (a b : Nat)
    (hst : ∀ (i : Nat) (t : Th), ts0[i]? = some t → Stays t.F t.W t.p m0)
    (hsub : SubFW ts0) (hdisj : Disjoint ts0) (sched : List Nat)
    (hdone : ∀ t ∈ (runP ts0 sched ⟨m0, a, b⟩).1, t.isDone = true) :
    (runP ts0 sched ⟨m0, a, b⟩).2.kv = serial ts0 m0 := by
  have hg := runP_good ts0 m0 hsub hdisj sched ts0 ⟨m0, a, b⟩ (good_init ts0 m0 hst)
  obtain ⟨c1, c2⟩ := serial_char ts0 m0 hst hsub hdisj
  funext k
  by_cases h : ∃ (i : Nat) (t0 : Th), ts0[i]? = some t0 ∧ t0.W k
  · obtain ⟨i, t0, ht0, hw⟩ := h
    have hi : i < (runP ts0 sched ⟨m0, a, b⟩).1.length := by
      rw [hg.len]
      rcases Nat.lt_or_ge i ts0.length with h | h
      · exact h
      · rw [List.getElem?_eq_none h] at ht0; cases ht0
    have hget : (runP ts0 sched ⟨m0, a, b⟩).1[i]? = some ((runP ts0 sched ⟨m0, a, b⟩).1[i]) :=
      List.getElem?_eq_getElem hi
    obtain ⟨t0', ht0', eF, eW, _, hfin⟩ := hg.rel i _ hget
    rw [ht0] at ht0'; cases ht0'
    have hk : ((runP ts0 sched ⟨m0, a, b⟩).1[i]).F k := by rw [eF]; exact hsub i t0 ht0 k hw
    have := hfin k hk
    rw [finalOf_done _ (hdone _ (List.getElem_mem hi))] at this
    rw [this, c1 i t0 ht0 k (hsub i t0 ht0 k hw)]
  · have hk : ∀ (i : Nat) (t0 : Th), ts0[i]? = some t0 → ¬ t0.W k := fun i t0 h1 h2 => h ⟨i, t0, h1, h2⟩
    rw [hg.out k hk, c2 k hk]

end Neumann.Graph
