import NeumannModel.Graph.Lemmas
/-
  C05 — property theorems for the graph store model.  ONLY property statements and their
  non-vacuity examples live here; helpers are in `Lemmas.lean`.
-/
namespace Neumann.Graph.Props
open Neumann.Graph

/-! ### concurrent: the full statement `QuiescentWF` is FALSE of the current step lists -/

/-- two nodes 1, 2 created sequentially -/
def twoNodes : St := applyAll St.empty [.createNode 0 0, .createNode 0 0]
def e12 : Op := .createEdge 1 2 true 0 0
/-- nodes 1, 2 and the directed edge 1: 1→2 -/
def twoNodesEdge : St := applyAll St.empty [.createNode 0 0, .createNode 0 0, e12]
/-- nodes 1, 2 and two parallel directed edges 1, 2: 1→2 -/
def twoNodesTwoEdges : St := applyAll St.empty [.createNode 0 0, .createNode 0 0, e12, e12]

/-- Lost update on the adjacency list of a hub: two `create_edge(1,2)` both read `node:1:out`
    (empty), both write it; edge 1 exists but node 1 does not list it. Schedule entries are
    scheduler grants (thread index), the first grant of a thread is `thread.start`. -/
theorem rmw_lost_update_witness :
    ¬ QuiescentWF twoNodes [[e12], [e12]] := by
  intro h
  have hw := h [0, 1, 0, 1, 0, 1, 0, 1, 0, 1, 0, 1, 0, 0, 1, 1] (by decide)
  have h1 := (hw.edge_listed 1 ⟨1, 2, true, 0, 0⟩ (by decide)).2.2.1
  exact absurd h1 (by decide)

/-- `create_edge(1,2)` checks that node 2 exists, `delete_node(2)` then runs to completion, then
    the edge is written: edge 1 points to the deleted node 2 (and `node:2:in` is re-created). -/
theorem create_edge_delete_node_race_witness :
    ¬ QuiescentWF twoNodes [[e12], [.deleteNode 2 []]] := by
  intro h
  have hw := h [0, 0, 0, 1, 1, 1, 1, 1, 1, 1, 0, 0, 0, 0, 0] (by decide)
  have h1 := (hw.edge_listed 1 ⟨1, 2, true, 0, 0⟩ (by decide)).2.1
  exact absurd h1 (by decide)

/-- `update_edge(1)` reads the record, `delete_edge(1)` runs to completion, then the update writes
    the record back: edge 1 exists again but no node lists it. -/
theorem update_edge_delete_edge_race_witness :
    ¬ QuiescentWF twoNodesEdge [[.updateEdge 1 9], [.deleteEdge 1]] := by
  intro h
  have hw := h [0, 0, 0, 1, 1, 1, 1, 1, 1, 1, 0] (by decide)
  have h1 := (hw.edge_listed 1 ⟨1, 2, true, 0, 9⟩ (by decide)).2.2.1
  exact absurd h1 (by decide)

/-- Lost removal: `delete_edge(1)` and `delete_edge(2)` both read `node:1:out = [1,2]`, write
    `[2]` resp. `[1]`: node 1 still lists the deleted edge 1. -/
theorem rmw_lost_removal_witness :
    ¬ QuiescentWF twoNodesTwoEdges [[.deleteEdge 1], [.deleteEdge 2]] := by
  intro h
  have hw := h [0, 1, 0, 1, 0, 1, 0, 1, 0, 0, 0, 1, 1, 1] (by decide)
  obtain ⟨r, hr, _⟩ := hw.out_sound 1 1 (by decide)
  have hn : edgeAt (runSched [[Op.deleteEdge 1], [Op.deleteEdge 2]]
      [0, 1, 0, 1, 0, 1, 0, 1, 0, 0, 0, 1, 1, 1] twoNodesTwoEdges).2.kv 1 = none := by decide
  rw [hn] at hr; exact absurd hr (by simp)

end Neumann.Graph.Props
