import NeumannModel.Graph.Batch
import NeumannModel.Graph.Query
import NeumannModel.Graph.ConcOps
import NeumannModel.Graph.Atomic
/-
  C05 — property theorems for the graph store model.  ONLY property statements and their
  non-vacuity examples live here; helpers are in `Lemmas.lean`.
-/
namespace Neumann.Graph.Props
open Neumann.Graph

def twoNodesEdgeS : St := applyAll St.empty [.createNode 0 0, .createNode 0 0, .createEdge 1 2 true 0 0]

/-! ### sequential: every operation sequence -/

/-- `Inv s` = `WF s.kv` + ids above the counters are unused + an existing node has both list keys.
    The empty store satisfies it; every operation preserves it, so it holds after EVERY sequence of
    create/delete/update operations (self-loops, parallel and undirected edges, unknown ids,
    any iteration order of `delete_node`'s edge set, both of its code paths). -/
theorem wf_preserved (ops : List Op) (s : St) (h : Inv s) :
    Inv (applyAll s ops) ∧ WF (applyAll s ops).kv :=
  ⟨inv_applyAll ops s h, (inv_applyAll ops s h).wf⟩

theorem wf_of_any_history (ops : List Op) : WF (applyAll St.empty ops).kv :=
  (wf_preserved ops St.empty inv_empty).2

example : Inv (applyAll St.empty [.createNode 0 0, .createNode 0 0, .createEdge 1 2 false 0 0,
    .createEdge 1 1 true 0 0, .createEdge 1 2 true 1 0, .deleteEdge 2]) :=
  (wf_preserved _ _ inv_empty).1

/-- `delete_node(id)` on an existing node of a reachable store succeeds (whatever order the edge set
    is iterated in, whichever code path), removes the node, removes EXACTLY the edges listed by the
    node (= its incident edges, by `WF`), and afterwards no remaining edge touches `id`. -/
theorem delete_node_removes_incident_edges (s : St) (h : Inv s) (id : Nat) (hint : List Nat)
    (hex : nodeEx s.kv id = true) :
    (apply s (.deleteNode id hint)).1 = .ok ∧
    nodeEx (apply s (.deleteNode id hint)).2.kv id = false ∧
    (∀ e r, edgeAt s.kv e = some r → (r.src = id ∨ r.dst = id) →
        edgeAt (apply s (.deleteNode id hint)).2.kv e = none) ∧
    (∀ e r, edgeAt s.kv e = some r → r.src ≠ id → r.dst ≠ id →
        edgeAt (apply s (.deleteNode id hint)).2.kv e = some r) ∧
    (∀ e r, edgeAt (apply s (.deleteNode id hint)).2.kv e = some r → r.src ≠ id ∧ r.dst ≠ id) ∧
    (∀ n, n ≠ id → nodeEx (apply s (.deleteNode id hint)).2.kv n = nodeEx s.kv n) := by
  obtain ⟨hok, hinv, hN, hE⟩ := deleteNode_main PARALLEL_THRESHOLD s id hint h hex
  simp only [apply, Op.prog, deleteNodeProg]
  refine ⟨hok, by rw [hN]; simp, ?_, ?_, ?_, ?_⟩
  · intro e r hr ht
    rw [hE]
    obtain ⟨_, _, h3, h4, _⟩ := h.wf.edge_listed e r hr
    rcases ht with rfl | rfl
    · simp [h3]
    · simp [h4]
  · intro e r hr h1 h2
    rw [hE]
    have ho : e ∉ outL s.kv id := by
      intro hm; obtain ⟨r', hr', ht⟩ := h.wf.out_sound id e hm
      rw [hr] at hr'; cases hr'; rcases ht with ht | ⟨_, ht⟩ <;> contradiction
    have hi : e ∉ inL s.kv id := by
      intro hm; obtain ⟨r', hr', ht⟩ := h.wf.in_sound id e hm
      rw [hr] at hr'; cases hr'; rcases ht with ht | ⟨_, ht⟩ <;> contradiction
    simp [ho, hi, hr]
  · intro e r hr
    obtain ⟨h1, h2, _⟩ := hinv.wf.edge_listed e r hr
    rw [hN] at h1 h2; simp at h1 h2; exact ⟨h1.2, h2.2⟩
  · intro n hn; rw [hN]; simp [hn]

example : nodeEx twoNodesEdgeS.kv 2 = true := by decide

/-- `neighbors(n, edge_type, direction)` returns exactly the nodes adjacent to `n` through an existing
    edge of that type in that direction (an undirected edge counts in both directions, a self-loop
    never makes a node its own neighbour), ascending and without repetition. -/
theorem neighbors_spec (m : KV) (h : WF m) (n : Nat) (dir : Dir) (ty : Option Nat)
    (hn : nodeEx m n = true) :
    ∃ l, neighbors m n dir ty = some l ∧ l.Pairwise (· < ·) ∧
      ∀ x, x ∈ l ↔ (x ≠ n ∧ Adjacent m n dir ty x) :=
  neighbors_char h dir ty hn

theorem neighbors_missing_node (m : KV) (n : Nat) (dir : Dir) (ty : Option Nat)
    (hn : nodeEx m n = false) : neighbors m n dir ty = none := by
  simp [neighbors, hn]

/-- `out_degree / in_degree / degree` count exactly the existing edges incident to `n`
    (for ANY duplicate-free enumeration `lo` / `li` of them; an undirected edge and a self-loop
    count once outgoing and once incoming). -/
theorem degree_spec (m : KV) (h : WF m) (n : Nat) (hn : nodeEx m n = true) (lo li : List Nat)
    (hlo : lo.Nodup) (hli : li.Nodup)
    (ho : ∀ e, e ∈ lo ↔ OutIncident m n e) (hi : ∀ e, e ∈ li ↔ InIncident m n e) :
    outDegree m n = some lo.length ∧ inDegree m n = some li.length ∧
    degree m n = some (lo.length + li.length) := by
  have e1 : (outL m n).length = lo.length :=
    length_eq_of_nodup_mem (h.out_nodup n) hlo (fun a => by rw [mem_outL_iff h, ho])
  have e2 : (inL m n).length = li.length :=
    length_eq_of_nodup_mem (h.in_nodup n) hli (fun a => by rw [mem_inL_iff h, hi])
  simp [outDegree, inDegree, degree, hn, e1, e2]

example : WF twoNodesEdgeS.kv ∧ neighbors twoNodesEdgeS.kv 1 .outgoing none = some [2] ∧
    degree twoNodesEdgeS.kv 1 = some 1 :=
  ⟨wf_of_any_history _, by decide, by decide⟩

/-! ### concurrent: the adjacency-list read-modify-write is atomic (list lock, /repo 81b9c5b4) -/

/-- two nodes 1, 2 created sequentially -/
def twoNodes : St := applyAll St.empty [.createNode 0 0, .createNode 0 0]
def e12 : Op := .createEdge 1 2 true 0 0
/-- nodes 1, 2 and the directed edge 1: 1→2 -/
def twoNodesEdge : St := applyAll St.empty [.createNode 0 0, .createNode 0 0, e12]
/-- nodes 1, 2 and two parallel directed edges 1, 2: 1→2 -/
def twoNodesTwoEdges : St := applyAll St.empty [.createNode 0 0, .createNode 0 0, e12, e12]

/-- The true part of `QuiescentWF`.  Any number of threads, each running any list of `create_edge`
    (any arguments: missing nodes, self-loops, parallel, undirected) and `delete_edge` operations,
    from any reachable store: for EVERY interleaving of their store calls that the list locks
    allow (a thread at the acquire of a held lock is not runnable; acquire / release are taken at
    the latest / earliest point, which gives the model every interleaving of the real code, see
    `Cfg.silent`), once all threads have finished the store is well-formed.  Several threads may
    delete the same edge, create edges on the same hub, create and delete around the same lists.

    Hypothesis on the operations (`Op.adm`): only `create_edge` and `delete_edge`, and a
    `delete_edge(e)` names an id handed out BEFORE the concurrent phase (`e ≤ s0.ne`; the edge need
    not exist).  Outside: node deletion and the update of an edge being deleted (the two remaining
    witnesses below), and deleting an edge whose `create_edge` has not returned yet (the id can only
    be guessed).  `quiescent_wf_partial` adds `update_node` and `update_edge`. -/
theorem adjacency_rmw_atomic (s0 : St) (h : Inv s0) (programs : List (List Op))
    (hadm : ∀ ops ∈ programs, ∀ op ∈ ops, op.adm s0.ne) : QuiescentWF s0 programs :=
  quiescentWF_of_adm s0 h programs hadm

/-- non-vacuity, and the regression form of the three fixed races: the thread sets of
    `rmw_lost_update_witness` and `rmw_lost_removal_witness` satisfy the hypotheses -/
example : QuiescentWF twoNodes [[e12], [e12]] :=
  adjacency_rmw_atomic _ (wf_preserved _ _ inv_empty).1 _ (by simp [e12, Op.adm])

example : QuiescentWF twoNodesTwoEdges [[.deleteEdge 1], [.deleteEdge 2]] :=
  adjacency_rmw_atomic _ (wf_preserved _ _ inv_empty).1 _ (by
    intro ops hops op hop
    simp at hops; rcases hops with rfl | rfl <;> simp at hop <;> subst hop <;> simp only [Op.adm] <;> decide)

/-- … and a complete interleaving of them exists: the OLD lost-update schedule is still a schedule
    of the locked code up to the point where thread 1 meets the held lock (its grants there do
    nothing), everything finishes and both edges are listed -/
example : allFinished (runSched [[e12], [e12]]
    [0, 1, 0, 1, 0, 1, 0, 1, 0, 1, 0, 0, 0, 1, 1, 1, 1] twoNodes).1 = true ∧
    outL (runSched [[e12], [e12]] [0, 1, 0, 1, 0, 1, 0, 1, 0, 1, 0, 0, 0, 1, 1, 1, 1] twoNodes).2.kv 1 = [1, 2] := by
  decide

/-! ### concurrent: the full statement `QuiescentWF` is still FALSE -/

/-- `create_edge(1,2)` checks that node 2 exists, `delete_node(2)` then runs to completion, then
    the edge is written: edge 1 points to the deleted node 2 (and `node:2:in` is re-created).
    Schedule entries are scheduler grants (thread index), the first grant of a thread is
    `thread.start`. -/
theorem create_edge_delete_node_race_witness :
    ¬ QuiescentWF twoNodes [[e12], [.deleteNode 2 []]] := by
  intro h
  have hw := h [0, 0, 0, 1, 1, 1, 1, 1, 1, 1, 0, 0, 0, 0, 0] (by decide)
  have h1 := (hw.edge_listed 1 ⟨1, 2, true, 0, 0⟩ (by decide)).2.1
  exact absurd h1 (by decide)

/-- `update_edge(1)` reads the record, `delete_edge(1)` runs to completion, then the update writes
    the record back: edge 1 exists again but no node lists it. -/
theorem update_edge_delete_edge_race_witness :
    ¬ QuiescentWF twoNodesEdge [[.updateEdge 1 9], [.deleteEdge 1]] := by
  intro h
  have hw := h [0, 0, 0, 1, 1, 1, 1, 1, 1, 1, 0] (by decide)
  have h1 := (hw.edge_listed 1 ⟨1, 2, true, 0, 9⟩ (by decide)).2.2.1
  exact absurd h1 (by decide)

/-! ### regression witnesses: the code before the list lock (`Op.progOld`, `…Old` programs) -/

/-- Lost update on the adjacency list of a hub, code before 81b9c5b4: two `create_edge(1,2)` both
    read `node:1:out` (empty), both write it; edge 1 exists but node 1 does not list it. -/
theorem rmw_lost_update_witness :
    ¬ QuiescentWFOld twoNodes [[e12], [e12]] := by
  intro h
  have hw := h [0, 1, 0, 1, 0, 1, 0, 1, 0, 1, 0, 1, 0, 0, 1, 1] (by decide)
  have h1 := (hw.edge_listed 1 ⟨1, 2, true, 0, 0⟩ (by decide)).2.2.1
  exact absurd h1 (by decide)

/-- Lost removal, code before 81b9c5b4: `delete_edge(1)` and `delete_edge(2)` both read
    `node:1:out = [1,2]`, write `[2]` resp. `[1]`: node 1 still lists the deleted edge 1. -/
theorem rmw_lost_removal_witness :
    ¬ QuiescentWFOld twoNodesTwoEdges [[.deleteEdge 1], [.deleteEdge 2]] := by
  intro h
  have hw := h [0, 1, 0, 1, 0, 1, 0, 1, 0, 0, 0, 1, 1, 1] (by decide)
  obtain ⟨r, hr, _⟩ := hw.out_sound 1 1 (by decide)
  have hn : edgeAt (runSchedWith Op.progOld [[Op.deleteEdge 1], [Op.deleteEdge 2]]
      [0, 1, 0, 1, 0, 1, 0, 1, 0, 0, 0, 1, 1, 1] twoNodesTwoEdges).2.kv 1 = none := by decide
  rw [hn] at hr; exact absurd hr (by simp)

/-- the two per-edge tasks that `delete_node(1)`'s >=100-edge path handed to the rayon pool for the
    parallel edges 1, 2 : 1→2 before 81b9c5b4 (one iteration of `delNodeParLoopOld` each) -/
def parTask (e : Nat) : Th := ⟨delNodeParLoopOld 1 [e] false (fun _ => .done .ok), fun _ => True, fun _ => True⟩

/-- INSIDE one `delete_node` call (no second client thread), code before 81b9c5b4: the pool tasks
    of two parallel edges both read `node:2:in = [1,2]`, write `[2]` resp. `[1]`: node 2 still
    lists the deleted edge 1. -/
theorem delete_node_parallel_path_lost_removal_witness :
    ¬ WF (runP [parTask 1, parTask 2] [0, 1, 0, 1, 0, 1, 0, 1] twoNodesTwoEdges).2.kv := by
  intro hw
  obtain ⟨r, hr, _⟩ := hw.in_sound 2 1 (by decide)
  have hn : edgeAt (runP [parTask 1, parTask 2] [0, 1, 0, 1, 0, 1, 0, 1] twoNodesTwoEdges).2.kv 1 = none := by
    decide
  rw [hn] at hr; exact absurd hr (by simp)

/-! ### concurrent: everything but node creation / deletion -/

/-- PARTIAL form of `QuiescentWF`: the largest set of operations for which it holds without a
    condition on footprints.  Any number of threads, each running any list of `create_edge`,
    `delete_edge`, `update_node` and `update_edge` operations from any reachable store: for EVERY
    interleaving the list locks allow, once all threads have finished the store is well-formed.
    Conditions (`Admissible`): a `delete_edge(e)` / `update_edge(e)` names an id handed out before the
    concurrent phase, and no `update_edge(e)` runs in a phase in which some thread has a
    `delete_edge(e)` (anywhere in its list).
    What is missing w.r.t. the full statement, which is false:
    * `delete_node` next to anything that touches the node or its edges
      (`create_edge_delete_node_race_witness`),
    * `update_edge(e)` next to `delete_edge(e)` (`update_edge_delete_edge_race_witness`),
    * `create_node` (its two list puts take no lock; harmless as long as nobody uses the new id
      before `create_node` returns) and operations on ids handed out DURING the phase, which a client
      can only guess.  For operation sets with disjoint footprints these are covered by
      `quiescent_wf_disjoint_partial`. -/
theorem quiescent_wf_partial (s0 : St) (h : Inv s0) (programs : List (List Op))
    (hadm : ∀ ops ∈ programs, ∀ op ∈ ops, Admissible s0 programs op) : QuiescentWF s0 programs :=
  quiescentWF_of_admissible s0 h programs hadm

/-- non-vacuity: updates of edge 1 and node 1 next to the deletion of edge 2 and new edges on the
    same hub -/
example : QuiescentWF twoNodesTwoEdges
    [[.updateEdge 1 9, .createEdge 1 2 false 0 0], [.deleteEdge 2, .updateNode 1 none 3], [.createEdge 2 1 true 1 1]] :=
  quiescent_wf_partial _ (wf_preserved _ _ inv_empty).1 _ (by
    intro ops hops op hop
    simp at hops
    rcases hops with rfl | rfl | rfl <;> simp at hop
    · rcases hop with rfl | rfl
      · refine ⟨by decide, ?_⟩; simp
      · trivial
    · rcases hop with rfl | rfl
      · show 2 ≤ twoNodesTwoEdges.ne; decide
      · trivial
    · subst hop; trivial)

/-! ### concurrent: operation sets with pairwise disjoint footprints (any operations) -/

/-- PARTIAL form of `QuiescentWF` for operations OUTSIDE `quiescent_wf_partial` (node creation and
    deletion, updates of edges being deleted).  Threads are programs (lists of atomic steps) with a
    footprint `F` (keys read or written) and a write footprint `W ⊆ F`; if the write footprint of every
    thread is disjoint from the footprint of every other thread (`Disjoint`), each thread alone stays
    inside its footprint from the initial store (`Stays`) and alone preserves `WF` on every store
    agreeing with the initial one on its footprint, then EVERY interleaving of the atomic steps that
    lets all threads finish ends in a well-formed store — in fact in the store of the serial run
    (`disjoint_interleaving_serial`).  `runP` ignores the list locks, so it has every interleaving
    of the locked code and more.
    What is missing w.r.t. the full statement (which is false, see the two witnesses above):
    operations whose footprints overlap and that are not covered by `quiescent_wf_partial`; the id
    allocation is outside the programs (ids are pre-assigned, the engine's atomic counters hand out
    distinct fresh ids); one operation per thread. Footprint facts are proved for `create_edge` and
    `delete_edge` (`createEdgeTh_ok`, `deleteEdgeTh_ok`). -/
theorem quiescent_wf_disjoint_partial (ts : List Th) (m0 : KV) (a b : Nat) (hwf : WF m0)
    (hst : ∀ (i : Nat) (t : Th), ts[i]? = some t → Stays t.F t.W t.p m0)
    (hsub : SubFW ts) (hdisj : Disjoint ts)
    (hpres : ∀ (i : Nat) (t : Th), ts[i]? = some t →
      ∀ m', WF m' → (∀ k, t.F k → m' k = m0 k) → WF (finalOf t.p m'))
    (sched : List Nat) (hdone : ∀ t ∈ (runP ts sched ⟨m0, a, b⟩).1, t.isDone = true) :
    WF (runP ts sched ⟨m0, a, b⟩).2.kv := by
  rw [disjoint_interleaving_serial ts m0 a b hst hsub hdisj sched hdone]
  exact serial_wf ts m0 hwf hst hsub hdisj hpres

/-- four nodes; `create_edge(1,2)` (id 1, undirected) and `create_edge(3,4)` (id 2) touch disjoint
    keys: every complete interleaving of their 17 + 9 steps is well-formed -/
def fourNodes : St := applyAll St.empty [.createNode 0 0, .createNode 0 0, .createNode 0 0, .createNode 0 0]

theorem disjoint_create_edges_wf (sched : List Nat)
    (hdone : ∀ t ∈ (runP [createEdgeTh 1 1 2 false 0 0, createEdgeTh 2 3 4 true 0 0] sched fourNodes).1,
      t.isDone = true) :
    WF (runP [createEdgeTh 1 1 2 false 0 0, createEdgeTh 2 3 4 true 0 0] sched fourNodes).2.kv := by
  have h1 := createEdgeTh_ok 1 1 2 false 0 0 fourNodes.kv (by decide) (by decide) (by decide)
  have h2 := createEdgeTh_ok 2 3 4 true 0 0 fourNodes.kv (by decide) (by decide) (by decide)
  have hcases : ∀ (i : Nat) (t : Th),
      [createEdgeTh 1 1 2 false 0 0, createEdgeTh 2 3 4 true 0 0][i]? = some t →
      (i = 0 ∧ t = createEdgeTh 1 1 2 false 0 0) ∨ (i = 1 ∧ t = createEdgeTh 2 3 4 true 0 0) := by
    intro i t h
    match i, h with
    | 0, h => simp at h; exact Or.inl ⟨rfl, h.symm⟩
    | 1, h => simp at h; exact Or.inr ⟨rfl, h.symm⟩
    | n + 2, h => simp at h
  apply quiescent_wf_disjoint_partial _ fourNodes.kv fourNodes.nn fourNodes.ne (wf_of_any_history _)
  · intro i t h; rcases hcases i t h with ⟨_, rfl⟩ | ⟨_, rfl⟩
    · exact h1.1 _
    · exact h2.1 _
  · intro i t h; rcases hcases i t h with ⟨_, rfl⟩ | ⟨_, rfl⟩
    · exact h1.2.1
    · exact h2.2.1
  · intro i j t u hij hi hj k hw hf
    rcases hcases i t hi with ⟨rfl, rfl⟩ | ⟨rfl, rfl⟩ <;> rcases hcases j u hj with ⟨rfl, rfl⟩ | ⟨rfl, rfl⟩
    · exact hij rfl
    · simp only [createEdgeTh] at hw hf; grind
    · simp only [createEdgeTh] at hw hf; grind
    · exact hij rfl
  · intro i t h; rcases hcases i t h with ⟨_, rfl⟩ | ⟨_, rfl⟩
    · exact h1.2.2
    · exact h2.2.2
  · exact hdone

/-- non-vacuity: a complete interleaving exists (alternating, then the rest of thread 0), and it is
    well-formed with both edges present -/
example : (runP [createEdgeTh 1 1 2 false 0 0, createEdgeTh 2 3 4 true 0 0]
    [0, 1, 0, 1, 0, 1, 0, 1, 0, 1, 0, 1, 0, 1, 0, 1, 0, 1, 0, 0, 0, 0, 0, 0, 0, 0] fourNodes).1.all Th.isDone = true := by decide

example : WF (runP [createEdgeTh 1 1 2 false 0 0, createEdgeTh 2 3 4 true 0 0]
    [0, 1, 0, 1, 0, 1, 0, 1, 0, 1, 0, 1, 0, 1, 0, 1, 0, 1, 0, 0, 0, 0, 0, 0, 0, 0] fourNodes).2.kv :=
  disjoint_create_edges_wf _ (by
    intro t ht
    have h : (runP [createEdgeTh 1 1 2 false 0 0, createEdgeTh 2 3 4 true 0 0]
      [0, 1, 0, 1, 0, 1, 0, 1, 0, 1, 0, 1, 0, 1, 0, 1, 0, 1, 0, 0, 0, 0, 0, 0, 0, 0] fourNodes).1.all Th.isDone = true := by decide
    exact List.all_eq_true.mp h t ht)

end Neumann.Graph.Props
