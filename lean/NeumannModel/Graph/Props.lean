import NeumannModel.Graph.Spec
import NeumannModel.Graph.Traverse
import NeumannModel.Graph.ConcOps
import NeumannModel.Graph.Atomic
import NeumannModel.Graph.AtomicBatch
import NeumannModel.Graph.Exclusive
/-
  C05 — property theorems for the graph store model.  ONLY property statements and their
  non-vacuity examples live here; helpers are in `Lemmas.lean`.
-/
namespace Neumann.Graph.Props
open Neumann.Graph

def twoNodesEdgeS : St := applyAll St.empty [.createNode 0 0, .createNode 0 0, .createEdge 1 2 true 0 0]

/-! ### sequential: every operation sequence -/

/-- `Inv s` = `WF s.kv` + ids above the counters are unused + an existing node has both list keys.
    The empty store satisfies it; every operation preserves it, so it holds after EVERY sequence of
    create/delete/update operations (self-loops, parallel and undirected edges, unknown ids,
    any iteration order of `delete_node`'s edge set, both of its code paths; `add_label`,
    `remove_label`; the batch calls `batch_create_nodes`, `batch_create_edges`, `batch_delete_edges`,
    `batch_delete_nodes`, `batch_update_nodes` with any inputs, empty, repeated and unknown ids
    included). -/
theorem wf_preserved (ops : List Op) (s : St) (h : Inv s) :
    Inv (applyAll s ops) ∧ WF (applyAll s ops).kv :=
  ⟨inv_applyAll ops s h, (inv_applyAll ops s h).wf⟩

theorem wf_of_any_history (ops : List Op) : WF (applyAll St.empty ops).kv :=
  (wf_preserved ops St.empty inv_empty).2

example : Inv (applyAll St.empty [.createNode 0 0, .createNode 0 0, .createEdge 1 2 false 0 0,
    .createEdge 1 1 true 0 0, .createEdge 1 2 true 1 0, .deleteEdge 2]) :=
  (wf_preserved _ _ inv_empty).1

/-- `delete_node(id)` on an existing node of a reachable store succeeds (whatever order the edge set
    is iterated in, whichever code path), removes the node, removes EXACTLY the edges listed by the
    node (= its incident edges, by `WF`), and afterwards no remaining edge touches `id`. -/
theorem delete_node_removes_incident_edges (s : St) (h : Inv s) (id : Nat) (hint : List Nat)
    (hex : nodeEx s.kv id = true) :
    (apply s (.deleteNode id hint)).1 = .ok ∧
    nodeEx (apply s (.deleteNode id hint)).2.kv id = false ∧
    (∀ e r, edgeAt s.kv e = some r → (r.src = id ∨ r.dst = id) →
        edgeAt (apply s (.deleteNode id hint)).2.kv e = none) ∧
    (∀ e r, edgeAt s.kv e = some r → r.src ≠ id → r.dst ≠ id →
        edgeAt (apply s (.deleteNode id hint)).2.kv e = some r) ∧
    (∀ e r, edgeAt (apply s (.deleteNode id hint)).2.kv e = some r → r.src ≠ id ∧ r.dst ≠ id) ∧
    (∀ n, n ≠ id → nodeEx (apply s (.deleteNode id hint)).2.kv n = nodeEx s.kv n) := by
  obtain ⟨hok, hinv, hN, hE⟩ := deleteNode_main PARALLEL_THRESHOLD s id hint h hex
  simp only [apply, Op.prog, deleteNodeProg]
  refine ⟨hok, by rw [hN]; simp, ?_, ?_, ?_, ?_⟩
  · intro e r hr ht
    rw [hE]
    obtain ⟨_, _, h3, h4, _⟩ := h.wf.edge_listed e r hr
    rcases ht with rfl | rfl
    · simp [h3]
    · simp [h4]
  · intro e r hr h1 h2
    rw [hE]
    have ho : e ∉ outL s.kv id := by
      intro hm; obtain ⟨r', hr', ht⟩ := h.wf.out_sound id e hm
      rw [hr] at hr'; cases hr'; rcases ht with ht | ⟨_, ht⟩ <;> contradiction
    have hi : e ∉ inL s.kv id := by
      intro hm; obtain ⟨r', hr', ht⟩ := h.wf.in_sound id e hm
      rw [hr] at hr'; cases hr'; rcases ht with ht | ⟨_, ht⟩ <;> contradiction
    simp [ho, hi, hr]
  · intro e r hr
    obtain ⟨h1, h2, _⟩ := hinv.wf.edge_listed e r hr
    rw [hN] at h1 h2; simp at h1 h2; exact ⟨h1.2, h2.2⟩
  · intro n hn; rw [hN]; simp [hn]

example : nodeEx twoNodesEdgeS.kv 2 = true := by decide

/-- `neighbors(n, edge_type, direction)` returns exactly the nodes adjacent to `n` through an existing
    edge of that type in that direction (an undirected edge counts in both directions, a self-loop
    never makes a node its own neighbour), ascending and without repetition. -/
theorem neighbors_spec (m : KV) (h : WF m) (n : Nat) (dir : Dir) (ty : Option Nat)
    (hn : nodeEx m n = true) :
    ∃ l, neighbors m n dir ty = some l ∧ l.Pairwise (· < ·) ∧
      ∀ x, x ∈ l ↔ (x ≠ n ∧ Adjacent m n dir ty x) :=
  neighbors_char h dir ty hn

theorem neighbors_missing_node (m : KV) (n : Nat) (dir : Dir) (ty : Option Nat)
    (hn : nodeEx m n = false) : neighbors m n dir ty = none := by
  simp [neighbors, hn]

/-- `out_degree / in_degree / degree` count exactly the existing edges incident to `n`
    (for ANY duplicate-free enumeration `lo` / `li` of them; an undirected edge and a self-loop
    count once outgoing and once incoming). -/
theorem degree_spec (m : KV) (h : WF m) (n : Nat) (hn : nodeEx m n = true) (lo li : List Nat)
    (hlo : lo.Nodup) (hli : li.Nodup)
    (ho : ∀ e, e ∈ lo ↔ OutIncident m n e) (hi : ∀ e, e ∈ li ↔ InIncident m n e) :
    outDegree m n = some lo.length ∧ inDegree m n = some li.length ∧
    degree m n = some (lo.length + li.length) := by
  have e1 : (outL m n).length = lo.length :=
    length_eq_of_nodup_mem (h.out_nodup n) hlo (fun a => by rw [mem_outL_iff h, ho])
  have e2 : (inL m n).length = li.length :=
    length_eq_of_nodup_mem (h.in_nodup n) hli (fun a => by rw [mem_inL_iff h, hi])
  simp [outDegree, inDegree, degree, hn, e1, e2]


/-- `traverse(start, direction, max_depth, edge_type)` returns exactly the nodes that can be reached
    from `start` in at most `max_depth` hops along existing edges of that type in that direction
    (`Within`; an undirected edge can be walked from either end, `start` itself is included),
    ascending and without repetition. -/
theorem traverse_spec (m : KV) (h : WF m) (start : Nat) (dir : Dir) (depth : Nat) (ty : Option Nat)
    (hs : nodeEx m start = true) :
    ∃ l, traverse m start dir depth ty = some l ∧ l.Pairwise (· < ·) ∧
      ∀ x, x ∈ l ↔ Within m dir ty start depth x :=
  traverse_char h start dir depth ty hs

theorem traverse_missing_node (m : KV) (start : Nat) (dir : Dir) (depth : Nat) (ty : Option Nat)
    (hs : nodeEx m start = false) : traverse m start dir depth ty = none := by
  simp [traverse, hs]

/-- a chain 1 → 2 → 3 with an undirected edge 3 — 4: two hops from 1 reach {1,2,3}, three hops reach 4;
    against the direction only the undirected edge can be walked -/
def chainS : St := applyAll St.empty [.createNode 0 0, .createNode 0 0, .createNode 0 0, .createNode 0 0,
  .createEdge 1 2 true 0 0, .createEdge 2 3 true 0 0, .createEdge 4 3 false 0 0]

example : WF chainS.kv ∧ traverse chainS.kv 1 .outgoing 2 none = some [1, 2, 3] ∧
    traverse chainS.kv 1 .outgoing 3 none = some [1, 2, 3, 4] ∧
    traverse chainS.kv 3 .outgoing 5 none = some [3, 4] :=
  ⟨wf_of_any_history _, by decide, by decide, by decide⟩

example : WF twoNodesEdgeS.kv ∧ neighbors twoNodesEdgeS.kv 1 .outgoing none = some [2] ∧
    degree twoNodesEdgeS.kv 1 = some 1 :=
  ⟨wf_of_any_history _, by decide, by decide⟩


/-! ### sequential: batch calls, re-opening -/

/-- Every batch call either does NOTHING (its validation phase failed: an endpoint of some input of
    `batch_create_edges` / a node of `batch_update_nodes` does not exist — checked for all inputs
    before the first write) or leaves exactly the store AND the id counters that the sequence of
    single operations `op.expand` leaves: ids come out of one block of the counter, the same ids the
    single calls would have been given; `batch_delete_*` go on after a failed item. -/
theorem batch_is_sequence_or_nothing (s : St) (op : Op) :
    (apply s op).2 = if op.batchValid s.kv then applyAll s op.expand else s :=
  batch_seq s op

example : (apply twoNodesEdgeS (.batchCreateEdges [⟨1, 2, false, 0, 0⟩, ⟨2, 2, true, 1, 1⟩])).2 =
    applyAll twoNodesEdgeS [.createEdge 1 2 false 0 0, .createEdge 2 2 true 1 1] :=
  batch_is_sequence_or_nothing _ _

/-- a missing endpoint anywhere in the input fails `batch_create_edges` as a whole -/
example : (apply twoNodesEdgeS (.batchCreateEdges [⟨1, 2, false, 0, 0⟩, ⟨2, 7, true, 1, 1⟩])) =
    (.batchInvalid 1 7, twoNodesEdgeS) := by
  have h := batch_is_sequence_or_nothing twoNodesEdgeS (.batchCreateEdges [⟨1, 2, false, 0, 0⟩, ⟨2, 7, true, 1, 1⟩])
  have hv : (Op.batchCreateEdges [⟨1, 2, false, 0, 0⟩, ⟨2, 7, true, 1, 1⟩]).batchValid twoNodesEdgeS.kv = false := by decide
  rw [hv] at h
  refine Prod.ext ?_ h
  decide

/-- what `batch_create_edges` answers: the block of fresh ids, or the first missing endpoint -/
theorem batch_create_edges_result (s : St) (items : List EdgeIn) :
    (endpointsExist s.kv items = true ∧
      (apply s (.batchCreateEdges items)).1 = .ids (if items.isEmpty then 0 else s.ne + 1) items.length) ∨
    (endpointsExist s.kv items = false ∧ ∃ i n, (apply s (.batchCreateEdges items)).1 = .batchInvalid i n ∧
      nodeEx s.kv n = false) :=
  batchCreateEdges_res s items


/-- what `batch_delete_edges`, `batch_delete_nodes` and `batch_update_nodes` ANSWER: exactly what the
    single calls answer one after the other (`seqRes`) — the ids whose delete answered `ok` as
    `deleted_ids`, (input index, id, cause) of the others as `failed`, both in input order; the number
    of updates that answered `ok` (when the validation phase passed). -/
theorem batch_delete_update_results (s : St) :
    (∀ ids, (apply s (.batchDeleteEdges ids)).1 =
      .batchDel (delOutcome 0 ids (seqRes s (ids.map .deleteEdge))).1
        (delOutcome 0 ids (seqRes s (ids.map .deleteEdge))).2) ∧
    (∀ ns, (apply s (.batchDeleteNodes ns)).1 =
      .batchDel (delOutcome 0 (ns.map Prod.fst) (seqRes s (ns.map fun x => .deleteNode x.1 x.2))).1
        (delOutcome 0 (ns.map Prod.fst) (seqRes s (ns.map fun x => .deleteNode x.1 x.2))).2) ∧
    (∀ us, nodesExist s.kv us = true → (apply s (.batchUpdateNodes us)).1 =
      .count (countOk (seqRes s (us.map fun x => .updateNode x.1 x.2.1 x.2.2)))) := by
  refine ⟨fun ids => ?_, fun ns => ?_, fun us hv => ?_⟩
  · have := bdeLoop_res ids 0 [] [] s
    simp only [List.reverse_nil, List.nil_append] at this
    exact this
  · have := bdnLoop_res ns 0 [] [] s
    simp only [List.reverse_nil, List.nil_append] at this
    exact this
  · simp only [apply, Op.prog, batchUpdateNodesProg]
    rcases run1_bunValidate (bunLoop us 0) us 0 s with ⟨_, h2⟩ | ⟨h1, _⟩
    · rw [h2, bunLoop_res]; simp
    · rw [hv] at h1; cases h1

/-- deleting edge 1 twice and an unknown id: one success, two `not found`, store as after one delete -/
example : (apply twoNodesEdgeS (.batchDeleteEdges [1, 1, 9])).1 =
    .batchDel [1] [(1, 1, .notFound), (2, 9, .notFound)] := by decide

/-- Re-opening (`GraphEngine::with_store` over the same store: the counters are re-derived as the
    largest stored node / edge id) keeps the invariant, so structural well-formedness holds after
    every session of operations and re-openings: a fresh id never collides with stored data, although
    ids of deleted nodes / edges above the largest live one ARE handed out again. -/
theorem wf_preserved_across_reopen (cs : List Cmd) (s : St) (h : Inv s) :
    Inv (applyCmds s cs) ∧ WF (applyCmds s cs).kv :=
  ⟨inv_applyCmds cs s h, (inv_applyCmds cs s h).wf⟩

/-- non-vacuity: node 3 is deleted, the engine re-opened, the id 3 handed out again and used -/
example : (applyCmds St.empty [.op (.createNode 0 0), .op (.createNode 0 0), .op (.createNode 0 0),
      .op (.createEdge 1 3 false 0 0), .op (.deleteNode 3 []), .reopen, .op (.createNode 1 1),
      .op (.createEdge 3 1 true 0 0)]).nn = 3 ∧
    WF (applyCmds St.empty [.op (.createNode 0 0), .op (.createNode 0 0), .op (.createNode 0 0),
      .op (.createEdge 1 3 false 0 0), .op (.deleteNode 3 []), .reopen, .op (.createNode 1 1),
      .op (.createEdge 3 1 true 0 0)]).kv :=
  ⟨by decide, (wf_preserved_across_reopen _ _ inv_empty).2⟩

/-- nodes 1, 2, edge 1 : 1→2, but a node counter that is one too small -/
def staleCounter : St := { twoNodesEdgeS with nn := 1 }

/-- why the counters must cover every stored id (`Inv.freshN`): with a counter one below the largest
    stored node id, `create_node` re-initialises the adjacency lists of the existing node 2 and
    edge 1 is no longer listed by its target -/
theorem reopen_counter_below_stored_id_witness :
    WF staleCounter.kv ∧ ¬ WF (apply staleCounter (.createNode 0 0)).2.kv := by
  refine ⟨wf_of_any_history _, ?_⟩
  intro hw
  have h1 := (hw.edge_listed 1 ⟨1, 2, true, 0, 0⟩ (by decide)).2.2.2.1
  exact absurd h1 (by decide)

/-! ### sequential: what each single operation does to the graph -/

/-- `create_edge(a, b)` with both endpoints present answers the next edge id and adds exactly that
    edge record; no other edge, no node changes (with `wf_preserved`: the new edge is listed by both
    endpoints in the right lists and nothing else moved). -/
theorem create_edge_spec (s : St) (a b : Nat) (d : Bool) (ty v : Nat) (h : Inv s)
    (ha : nodeEx s.kv a = true) (hb : nodeEx s.kv b = true) :
    (apply s (.createEdge a b d ty v)).1 = .id (s.ne + 1) ∧
    edgeAt s.kv (s.ne + 1) = none ∧
    (∀ x, edgeAt (apply s (.createEdge a b d ty v)).2.kv x =
        if x = s.ne + 1 then some ⟨a, b, d, ty, v⟩ else edgeAt s.kv x) ∧
    (∀ n, nodeEx (apply s (.createEdge a b d ty v)).2.kv n = nodeEx s.kv n) := by
  obtain ⟨h1, _, _, h4, h5⟩ := createEdge_ok_views s a b d ty v ha hb
  exact ⟨h1, h.freshE _ (by omega), h4, h5⟩

/-- `create_edge` with a missing endpoint changes nothing (not even the id counter) -/
theorem create_edge_missing_node (s : St) (a b : Nat) (d : Bool) (ty v : Nat)
    (h : nodeEx s.kv a = false ∨ nodeEx s.kv b = false) :
    apply s (.createEdge a b d ty v) = (.nodeNotFound (if nodeEx s.kv a = false then a else b), s) :=
  createEdge_missing s a b d ty v h

/-- `delete_edge(e)` of an existing edge succeeds and removes exactly that record -/
theorem delete_edge_spec (s : St) (e : Nat) (r : EdgeRec) (hr : edgeAt s.kv e = some r) :
    (apply s (.deleteEdge e)).1 = .ok ∧
    (∀ x, edgeAt (apply s (.deleteEdge e)).2.kv x = if x = e then none else edgeAt s.kv x) ∧
    (∀ n, nodeEx (apply s (.deleteEdge e)).2.kv n = nodeEx s.kv n) := by
  obtain ⟨h1, _, _, h4, h5⟩ := deleteEdge_ok_views s e r hr
  exact ⟨h1, h4, h5⟩

theorem delete_edge_missing (s : St) (e : Nat) (hr : edgeAt s.kv e = none) :
    apply s (.deleteEdge e) = (.edgeNotFound e, s) :=
  deleteEdge_missing s e hr

/-- `create_node` answers the next node id, adds exactly that node, with empty adjacency lists;
    no edge changes -/
theorem create_node_spec (s : St) (l v : Nat) (h : Inv s) :
    (apply s (.createNode l v)).1 = .id (s.nn + 1) ∧
    (∀ x, edgeAt (apply s (.createNode l v)).2.kv x = edgeAt s.kv x) ∧
    (∀ n, nodeEx (apply s (.createNode l v)).2.kv n = (nodeEx s.kv n || n == s.nn + 1)) ∧
    nodeEx s.kv (s.nn + 1) = false ∧
    outL (apply s (.createNode l v)).2.kv (s.nn + 1) = [] ∧
    inL (apply s (.createNode l v)).2.kv (s.nn + 1) = [] :=
  createNode_views s l v h

/-- `update_node`, `add_label`, `remove_label` touch one node record only: every edge record, the
    set of nodes, every adjacency list and both counters are unchanged -/
theorem node_update_frame (s : St) (op : Op) (n : Nat) (hop : op.nodeWrite = some n) :
    (∀ x, edgeAt (apply s op).2.kv x = edgeAt s.kv x) ∧
    (∀ k, nodeEx (apply s op).2.kv k = nodeEx s.kv k) ∧
    (∀ k, outL (apply s op).2.kv k = outL s.kv k) ∧ (∀ k, inL (apply s op).2.kv k = inL s.kv k) ∧
    (apply s op).2.nn = s.nn ∧ (apply s op).2.ne = s.ne :=
  nodeWrite_views s op n hop

example : (Op.addLabel 1 7).nodeWrite = some 1 := rfl

/-- `update_edge(e)` changes the property of that record only: endpoints, direction and type of
    every edge, the nodes and the adjacency lists are unchanged -/
theorem update_edge_spec (s : St) (e v : Nat) :
    (∀ x, edgeAt (apply s (.updateEdge e v)).2.kv x =
        if x = e then (edgeAt s.kv e).map (fun r => { r with ver := v }) else edgeAt s.kv x) ∧
    (∀ k, nodeEx (apply s (.updateEdge e v)).2.kv k = nodeEx s.kv k) ∧
    (∀ k, outL (apply s (.updateEdge e v)).2.kv k = outL s.kv k) ∧
    (∀ k, inL (apply s (.updateEdge e v)).2.kv k = inL s.kv k) :=
  updateEdge_views s e v

/-! ### sequential: more observation points -/

/-- `e` is incident to `n` in direction `dir` (an undirected edge and a self-loop both ways) -/
def EdgeIncident (m : KV) (n : Nat) (dir : Dir) (e : Nat) : Prop :=
  ((dir = .outgoing ∨ dir = .both) ∧ OutIncident m n e) ∨ ((dir = .incoming ∨ dir = .both) ∧ InIncident m n e)

/-- `edges_of(n, direction)` returns exactly the existing edges incident to `n` in that direction,
    each once, with its stored record, ascending by id. -/
theorem edges_of_spec (m : KV) (h : WF m) (n : Nat) (dir : Dir) (hn : nodeEx m n = true) :
    ∃ l, edgesOf m n dir = some l ∧ (l.map Prod.fst).Pairwise (· < ·) ∧
      ∀ e r, (e, r) ∈ l ↔ (edgeAt m e = some r ∧ EdgeIncident m n dir e) := by
  refine ⟨withRec m (edgesOfIds m n dir), by simp [edgesOf, hn], ?_, ?_⟩
  · exact List.Pairwise.sublist (withRec_fst_sublist m _) (sorted_sortDedup _)
  · intro e r
    rw [mem_withRec, mem_edgesOfIds, mem_outL_iff h, mem_inL_iff h]
    exact ⟨fun hh => ⟨hh.2, hh.1⟩, fun hh => ⟨hh.2, hh.1⟩⟩


/-- The property as a client sees it through `edges_of`: in a well-formed store every existing edge
    is returned (with its record) by `edges_of(from, Outgoing)` and by `edges_of(to, Incoming)`, an
    undirected one also the other way round; conversely (`edges_of_spec`) whatever `edges_of` returns
    exists and touches the node.  With `wf_preserved` this holds after every sequence of operations. -/
theorem edge_visible_from_both_endpoints (m : KV) (h : WF m) (e : Nat) (r : EdgeRec)
    (hr : edgeAt m e = some r) :
    (∃ l, edgesOf m r.src .outgoing = some l ∧ (e, r) ∈ l) ∧
    (∃ l, edgesOf m r.dst .incoming = some l ∧ (e, r) ∈ l) ∧
    (r.directed = false →
      (∃ l, edgesOf m r.dst .outgoing = some l ∧ (e, r) ∈ l) ∧
      (∃ l, edgesOf m r.src .incoming = some l ∧ (e, r) ∈ l)) := by
  obtain ⟨h1, h2, _⟩ := h.edge_listed e r hr
  obtain ⟨l1, e1, _, m1⟩ := edges_of_spec m h r.src .outgoing h1
  obtain ⟨l2, e2, _, m2⟩ := edges_of_spec m h r.dst .incoming h2
  obtain ⟨l3, e3, _, m3⟩ := edges_of_spec m h r.dst .outgoing h2
  obtain ⟨l4, e4, _, m4⟩ := edges_of_spec m h r.src .incoming h1
  refine ⟨⟨l1, e1, (m1 e r).mpr ⟨hr, Or.inl ⟨Or.inl rfl, r, hr, Or.inl rfl⟩⟩⟩,
    ⟨l2, e2, (m2 e r).mpr ⟨hr, Or.inr ⟨Or.inl rfl, r, hr, Or.inl rfl⟩⟩⟩, fun hd => ?_⟩
  exact ⟨⟨l3, e3, (m3 e r).mpr ⟨hr, Or.inl ⟨Or.inl rfl, r, hr, Or.inr ⟨hd, rfl⟩⟩⟩⟩,
    ⟨l4, e4, (m4 e r).mpr ⟨hr, Or.inr ⟨Or.inl rfl, r, hr, Or.inr ⟨hd, rfl⟩⟩⟩⟩⟩

example : edgeAt twoNodesEdgeS.kv 1 = some ⟨1, 2, true, 0, 0⟩ := by decide

theorem edges_of_missing_node (m : KV) (n : Nat) (dir : Dir) (hn : nodeEx m n = false) :
    edgesOf m n dir = none := by
  simp [edgesOf, hn]

example : edgesOf twoNodesEdgeS.kv 2 .incoming = some [(1, ⟨1, 2, true, 0, 0⟩)] ∧
    edgesOf twoNodesEdgeS.kv 2 .outgoing = some [] := by decide

/-- `edges_of_paginated` is a page of `edges_of`: the items are `edges_of` after dropping `skip` and
    keeping at most `limit`, the total is its length, `has_more` says whether anything is left. -/
theorem edges_of_page_spec (m : KV) (h : WF m) (n : Nat) (dir : Dir) (skip : Nat) (limit : Option Nat)
    (l : List (Nat × EdgeRec)) (hl : edgesOf m n dir = some l) :
    edgesOfPage m n dir skip limit = some (pageOf l skip limit, l.length, hasMore l.length skip limit) := by
  unfold edgesOf at hl
  split at hl
  · rename_i hn
    cases hl
    have hall := edgesOfIds_have_records h (n := n) (dir := dir)
    have e1 := withRec_eq_map m (edgesOfIds m n dir) hall
    have e2 := withRec_eq_map m (pageOf (edgesOfIds m n dir) skip limit) (fun e he => hall e (mem_pageOf he))
    simp only [edgesOfPage, hn, if_true]
    rw [e2, e1, map_pageOf, List.length_map]
  · cases hl

example : edgesOfPage twoNodesEdgeS.kv 1 .both 0 (some 0) = some ([], 1, true) := by decide

/-- `out_degree_by_type / in_degree_by_type / degree_by_type` count exactly the existing edges of
    that type incident to `n` (for ANY duplicate-free enumeration `lo` / `li` of them). -/
theorem degree_by_type_spec (m : KV) (h : WF m) (n ty : Nat) (hn : nodeEx m n = true) (lo li : List Nat)
    (hlo : lo.Nodup) (hli : li.Nodup)
    (ho : ∀ e, e ∈ lo ↔ OutIncidentTy m n ty e) (hi : ∀ e, e ∈ li ↔ InIncidentTy m n ty e) :
    outDegreeByType m n ty = some lo.length ∧ inDegreeByType m n ty = some li.length ∧
    degreeByType m n ty = some (lo.length + li.length) := by
  have e1 : countTy m (outL m n) ty = lo.length := by
    apply countTy_eq (h.out_nodup n) hlo
    intro e; rw [ho, mem_outL_iff h]
    constructor
    · rintro ⟨r, hr, ht, hc⟩; exact ⟨⟨r, hr, hc⟩, r, hr, ht⟩
    · rintro ⟨⟨r, hr, hc⟩, r', hr', ht⟩; rw [hr] at hr'; cases hr'; exact ⟨r, hr, ht, hc⟩
  have e2 : countTy m (inL m n) ty = li.length := by
    apply countTy_eq (h.in_nodup n) hli
    intro e; rw [hi, mem_inL_iff h]
    constructor
    · rintro ⟨r, hr, ht, hc⟩; exact ⟨⟨r, hr, hc⟩, r, hr, ht⟩
    · rintro ⟨⟨r, hr, hc⟩, r', hr', ht⟩; rw [hr] at hr'; cases hr'; exact ⟨r, hr, ht, hc⟩
  simp [outDegreeByType, inDegreeByType, degreeByType, hn, e1, e2]

example : degreeByType twoNodesEdgeS.kv 1 0 = some 1 ∧ degreeByType twoNodesEdgeS.kv 1 1 = some 0 := by decide

/-- `all_edges()` lists exactly the existing edge records, ascending by id; `get_all_node_ids()` /
    `all_nodes()` exactly the existing nodes, ascending; `node_count()` is their number. -/
theorem scans_spec (s : St) (h : Inv s) :
    ((allEdges s).map Prod.fst).Pairwise (· < ·) ∧
    (∀ e r, (e, r) ∈ allEdges s ↔ edgeAt s.kv e = some r) ∧
    (allNodeIds s).Pairwise (· < ·) ∧ (∀ n, n ∈ allNodeIds s ↔ nodeEx s.kv n = true) ∧
    nodeCount s = (allNodeIds s).length :=
  ⟨List.Pairwise.sublist (withRec_fst_sublist _ _) (range_pairwise_lt _),
   fun _ _ => mem_allEdges h,
   List.Pairwise.sublist List.filter_sublist (range_pairwise_lt _),
   fun _ => mem_allNodeIds h, rfl⟩

example : allEdges twoNodesEdgeS = [(1, ⟨1, 2, true, 0, 0⟩)] ∧ allNodeIds twoNodesEdgeS = [1, 2] := by decide

/-! ### concurrent: the adjacency-list read-modify-write is atomic (list lock, /repo 81b9c5b4) -/

/-- two nodes 1, 2 created sequentially -/
def twoNodes : St := applyAll St.empty [.createNode 0 0, .createNode 0 0]
def e12 : Op := .createEdge 1 2 true 0 0
/-- nodes 1, 2 and the directed edge 1: 1→2 -/
def twoNodesEdge : St := applyAll St.empty [.createNode 0 0, .createNode 0 0, e12]
/-- nodes 1, 2 and two parallel directed edges 1, 2: 1→2 -/
def twoNodesTwoEdges : St := applyAll St.empty [.createNode 0 0, .createNode 0 0, e12, e12]

/-- The true part of `QuiescentWF`.  Any number of threads, each running any list of `create_edge`
    (any arguments: missing nodes, self-loops, parallel, undirected) and `delete_edge` operations,
    from any reachable store: for EVERY interleaving of their store calls that the list locks
    allow (a thread at the acquire of a held lock is not runnable; acquire / release are taken at
    the latest / earliest point, which gives the model every interleaving of the real code, see
    `Cfg.silent`), once all threads have finished the store is well-formed.  Several threads may
    delete the same edge, create edges on the same hub, create and delete around the same lists.

    Hypothesis on the operations (`Op.adm`): only `create_edge` and `delete_edge`, and a
    `delete_edge(e)` names an id handed out BEFORE the concurrent phase (`e ≤ s0.ne`; the edge need
    not exist).  Outside: node deletion and the update of an edge being deleted (the two remaining
    witnesses below), and deleting an edge whose `create_edge` has not returned yet (the id can only
    be guessed).  `quiescent_wf_partial` adds `create_node`, `update_node`, `add_label`, `remove_label`
    and `update_edge`. -/
theorem adjacency_rmw_atomic (s0 : St) (h : Inv s0) (programs : List (List Op))
    (hadm : ∀ ops ∈ programs, ∀ op ∈ ops, op.adm s0.ne) : QuiescentWF s0 programs :=
  quiescentWF_of_adm s0 h programs hadm

/-- non-vacuity, and the regression form of the three fixed races: the thread sets of
    `rmw_lost_update_witness` and `rmw_lost_removal_witness` satisfy the hypotheses -/
example : QuiescentWF twoNodes [[e12], [e12]] :=
  adjacency_rmw_atomic _ (wf_preserved _ _ inv_empty).1 _ (by simp [e12, Op.adm])

example : QuiescentWF twoNodesTwoEdges [[.deleteEdge 1], [.deleteEdge 2]] :=
  adjacency_rmw_atomic _ (wf_preserved _ _ inv_empty).1 _ (by
    intro ops hops op hop
    simp at hops; rcases hops with rfl | rfl <;> simp at hop <;> subst hop <;> simp only [Op.adm] <;> decide)

/-- … and a complete interleaving of them exists: the OLD lost-update schedule is still a schedule
    of the locked code up to the point where thread 1 meets the held lock (its grants there do
    nothing), everything finishes and both edges are listed -/
example : allFinished (runSched [[e12], [e12]]
    [0, 1, 0, 1, 0, 1, 0, 1, 0, 1, 0, 0, 0, 1, 1, 1, 1] twoNodes).1 = true ∧
    outL (runSched [[e12], [e12]] [0, 1, 0, 1, 0, 1, 0, 1, 0, 1, 0, 0, 0, 1, 1, 1, 1] twoNodes).2.kv 1 = [1, 2] := by
  decide

/-! ### concurrent: the full statement `QuiescentWF` is still FALSE -/

/-- `create_edge(1,2)` checks that node 2 exists, `delete_node(2)` then runs to completion, then
    the edge is written: edge 1 points to the deleted node 2 (and `node:2:in` is re-created).
    Schedule entries are scheduler grants (thread index), the first grant of a thread is
    `thread.start`. -/
theorem create_edge_delete_node_race_witness :
    ¬ QuiescentWF twoNodes [[e12], [.deleteNode 2 []]] := by
  intro h
  have hw := h [0, 0, 0, 1, 1, 1, 1, 1, 1, 1, 0, 0, 0, 0, 0] (by decide)
  have h1 := (hw.edge_listed 1 ⟨1, 2, true, 0, 0⟩ (by decide)).2.1
  exact absurd h1 (by decide)

/-- `update_edge(1)` reads the record, `delete_edge(1)` runs to completion, then the update writes
    the record back: edge 1 exists again but no node lists it. -/
theorem update_edge_delete_edge_race_witness :
    ¬ QuiescentWF twoNodesEdge [[.updateEdge 1 9], [.deleteEdge 1]] := by
  intro h
  have hw := h [0, 0, 0, 1, 1, 1, 1, 1, 1, 1, 0] (by decide)
  have h1 := (hw.edge_listed 1 ⟨1, 2, true, 0, 9⟩ (by decide)).2.2.1
  exact absurd h1 (by decide)


/-- `create_edge` writes the edge record FIRST and the list entries afterwards.  A `delete_edge(1)`
    that finds the record in between (guessed id, or discovered by `all_edges`) cleans lists that do
    not mention the edge yet and deletes the record; `create_edge` then adds the entries: both lists
    mention an edge that does not exist.  In the code the creator takes the lock of its first list
    right after the `store.put` of the record, with no yield point in between: the schedule needs a
    preemption there, which the model (locks taken lazily) has and the deterministic scheduler of the
    harness cannot produce — this witness is about the model and is not replayed on the real engine. -/
theorem delete_edge_of_edge_in_creation_race_witness :
    ¬ QuiescentWF twoNodes [[e12], [.deleteEdge 1]] := by
  intro h
  have hw := h [0, 0, 0, 0, 1, 1, 1, 1, 1, 1, 1, 0, 0, 0, 0] (by decide)
  obtain ⟨r, hr, _⟩ := hw.out_sound 1 1 (by decide)
  have hn : edgeAt (runSched [[e12], [.deleteEdge 1]] [0, 0, 0, 0, 1, 1, 1, 1, 1, 1, 1, 0, 0, 0, 0] twoNodes).2.kv 1 = none := by
    decide
  rw [hn] at hr; exact absurd hr (by simp)

/-! ### regression witnesses: the code before the list lock (`Op.progOld`, `…Old` programs) and
    before `create_node` wrote its lists first (`Op.progNodeFirst`, `createNodeFromOld`) -/

/-- Code before e23bf6c3: `create_node` wrote the node record FIRST and initialised the two adjacency
    lists afterwards.  A `create_edge(1, 3)` that sees node 3 between the two (the id can be guessed,
    or discovered by a scan: `node:3` is already stored) appends edge 1 to `node:3:in`; `create_node`
    then overwrites that list with the empty one: edge 1 exists, its target does not list it.
    (Class graph_engine.create_node/lists_initialised_after_node_visible; with the code as it is now
    the same thread set is covered by `quiescent_wf_partial`, see the examples there.) -/
theorem create_node_create_edge_race_old_witness :
    ¬ QuiescentWFNodeFirst twoNodes [[.createNode 0 0], [.createEdge 1 3 true 0 0]] := by
  intro h
  have hw := h [0, 0, 1, 1, 1, 1, 1, 1, 1, 1, 0, 0] (by decide)
  have h1 := (hw.edge_listed 1 ⟨1, 3, true, 0, 0⟩ (by decide)).2.2.2.1
  exact absurd h1 (by decide)

/-- Lost update on the adjacency list of a hub, code before 81b9c5b4: two `create_edge(1,2)` both
    read `node:1:out` (empty), both write it; edge 1 exists but node 1 does not list it. -/
theorem rmw_lost_update_witness :
    ¬ QuiescentWFOld twoNodes [[e12], [e12]] := by
  intro h
  have hw := h [0, 1, 0, 1, 0, 1, 0, 1, 0, 1, 0, 1, 0, 0, 1, 1] (by decide)
  have h1 := (hw.edge_listed 1 ⟨1, 2, true, 0, 0⟩ (by decide)).2.2.1
  exact absurd h1 (by decide)

/-- Lost removal, code before 81b9c5b4: `delete_edge(1)` and `delete_edge(2)` both read
    `node:1:out = [1,2]`, write `[2]` resp. `[1]`: node 1 still lists the deleted edge 1. -/
theorem rmw_lost_removal_witness :
    ¬ QuiescentWFOld twoNodesTwoEdges [[.deleteEdge 1], [.deleteEdge 2]] := by
  intro h
  have hw := h [0, 1, 0, 1, 0, 1, 0, 1, 0, 0, 0, 1, 1, 1] (by decide)
  obtain ⟨r, hr, _⟩ := hw.out_sound 1 1 (by decide)
  have hn : edgeAt (runSchedWith Op.progOld [[Op.deleteEdge 1], [Op.deleteEdge 2]]
      [0, 1, 0, 1, 0, 1, 0, 1, 0, 0, 0, 1, 1, 1] twoNodesTwoEdges).2.kv 1 = none := by decide
  rw [hn] at hr; exact absurd hr (by simp)

/-- the two per-edge tasks that `delete_node(1)`'s >=100-edge path handed to the rayon pool for the
    parallel edges 1, 2 : 1→2 before 81b9c5b4 (one iteration of `delNodeParLoopOld` each) -/
def parTask (e : Nat) : Th := ⟨delNodeParLoopOld 1 [e] false (fun _ => .done .ok), fun _ => True, fun _ => True⟩

/-- INSIDE one `delete_node` call (no second client thread), code before 81b9c5b4: the pool tasks
    of two parallel edges both read `node:2:in = [1,2]`, write `[2]` resp. `[1]`: node 2 still
    lists the deleted edge 1. -/
theorem delete_node_parallel_path_lost_removal_witness :
    ¬ WF (runP [parTask 1, parTask 2] [0, 1, 0, 1, 0, 1, 0, 1] twoNodesTwoEdges).2.kv := by
  intro hw
  obtain ⟨r, hr, _⟩ := hw.in_sound 2 1 (by decide)
  have hn : edgeAt (runP [parTask 1, parTask 2] [0, 1, 0, 1, 0, 1, 0, 1] twoNodesTwoEdges).2.kv 1 = none := by
    decide
  rw [hn] at hr; exact absurd hr (by simp)

/-! ### concurrent: everything but node deletion -/

/-- PARTIAL form of `QuiescentWF`: the largest set of operations for which it holds without a
    condition on footprints.  Any number of threads, each running any list of `create_node`,
    `create_edge`, `delete_edge`, `update_node`, `add_label`, `remove_label` and `update_edge`
    operations from any reachable store: for EVERY interleaving the list locks allow, once all threads
    have finished the store is well-formed.
    `create_node` and `create_edge` take ANY arguments — in particular `create_edge(a, b)` may name a
    node whose `create_node` is still running in another thread (guessed id, or one discovered by a
    scan): since /repo e23bf6c3 `create_node` writes the node's two empty lists before the record that
    makes the node visible, so whoever sees the node appends to lists that are not written again
    (before that commit: `create_node_create_edge_race_old_witness`).
    Conditions (`Admissible`): a `delete_edge(e)` / `update_edge(e)` names an id handed out before the
    concurrent phase; no `update_edge(e)` runs in a phase in which some thread has a `delete_edge(e)`
    (anywhere in its list).
    What is missing w.r.t. the full statement, which is false:
    * `delete_node` next to anything that touches the node or its edges
      (`create_edge_delete_node_race_witness`),
    * `update_edge(e)` next to `delete_edge(e)` (`update_edge_delete_edge_race_witness`),
    * `delete_edge` of an edge whose `create_edge` is still running
      (`delete_edge_of_edge_in_creation_race_witness`): an id handed out DURING the phase, which a
      client can only guess or discover by a scan,
    * the batch calls: `quiescent_wf_with_batch_calls_partial` below.
    For operation sets with disjoint footprints see `quiescent_wf_disjoint_partial`. -/
theorem quiescent_wf_partial (s0 : St) (h : Inv s0) (programs : List (List Op))
    (hadm : ∀ ops ∈ programs, ∀ op ∈ ops, Admissible s0 programs op) : QuiescentWF s0 programs :=
  quiescentWF_of_admissible s0 h programs hadm

/-- non-vacuity: updates of edge 1 and node 1 next to the deletion of edge 2, new edges on the same
    hub and new nodes -/
example : QuiescentWF twoNodesTwoEdges
    [[.updateEdge 1 9, .createEdge 1 2 false 0 0], [.deleteEdge 2, .updateNode 1 none 3, .createNode 4 4],
     [.createEdge 2 1 true 1 1, .addLabel 1 5, .removeLabel 2 0]] :=
  quiescent_wf_partial _ (wf_preserved _ _ inv_empty).1 _ (by
    intro ops hops op hop
    simp at hops
    rcases hops with rfl | rfl | rfl <;> simp at hop
    · rcases hop with rfl | rfl
      · refine ⟨by decide, ?_⟩; simp
      · trivial
    · rcases hop with rfl | rfl | rfl
      · show 2 ≤ twoNodesTwoEdges.ne; decide
      · trivial
      · trivial
    · rcases hop with rfl | rfl | rfl
      · trivial
      · trivial
      · trivial)

/-- … `create_edge` may name any node, e.g. one that does not exist -/
example : QuiescentWF twoNodes [[.createEdge 1 7 true 0 0], [e12]] :=
  quiescent_wf_partial _ (wf_preserved _ _ inv_empty).1 _ (by
    intro ops hops op hop
    simp at hops
    rcases hops with rfl | rfl <;> simp at hop <;> subst hop <;> trivial)

/-- What e23bf6c3 makes true, stated on its own: any number of threads running any lists of
    `create_node` and `create_edge` operations with ANY arguments (edges to nodes that do not exist
    yet, that are being created right now by another thread, self-loops, undirected), from any
    reachable store, under EVERY interleaving: the store is well-formed once all have finished. -/
theorem create_node_create_edge_any_interleaving (s0 : St) (h : Inv s0) (programs : List (List Op))
    (hops : ∀ ops ∈ programs, ∀ op ∈ ops, (∃ l v, op = .createNode l v) ∨ (∃ a b d ty v, op = .createEdge a b d ty v)) :
    QuiescentWF s0 programs :=
  quiescent_wf_partial s0 h programs (by
    intro ops ho op hop
    rcases hops ops ho op hop with ⟨l, v, rfl⟩ | ⟨a, b, d, ty, v, rfl⟩ <;> trivial)

/-- non-vacuity: the thread set of `create_node_create_edge_race_old_witness` satisfies the hypotheses … -/
example : QuiescentWF twoNodes [[.createNode 0 0], [.createEdge 1 3 true 0 0]] :=
  create_node_create_edge_any_interleaving _ (wf_preserved _ _ inv_empty).1 _ (by
    intro ops hops op hop
    simp at hops
    rcases hops with rfl | rfl <;> simp at hop <;> subst hop
    · exact Or.inl ⟨_, _, rfl⟩
    · exact Or.inr ⟨_, _, _, _, _, rfl⟩)

/-- … the old witness schedule is a complete schedule of the code as it is now: `create_edge(1, 3)`
    runs while `create_node` has written `node:3:out` only, does not see node 3 and answers
    NodeNotFound; the store is well-formed -/
example : allFinished (runSched [[.createNode 0 0], [.createEdge 1 3 true 0 0]]
      [0, 0, 1, 1, 1, 1, 1, 1, 1, 1, 0, 0] twoNodes).1 = true ∧
    ((runSched [[.createNode 0 0], [.createEdge 1 3 true 0 0]]
      [0, 0, 1, 1, 1, 1, 1, 1, 1, 1, 0, 0] twoNodes).1.map fun t =>
        match t.cur with | some (.done r) => some r | _ => none) =
      [some (.id 3), some (.nodeNotFound 3)] ∧
    wfCheck (runSched [[.createNode 0 0], [.createEdge 1 3 true 0 0]]
      [0, 0, 1, 1, 1, 1, 1, 1, 1, 1, 0, 0] twoNodes).2 = none := by
  refine ⟨by decide, ?_, by decide⟩
  decide

/-- … and when `create_edge(1, 3)` runs after the LAST store call of `create_node` (the record) it
    finds node 3 and both lists: edge 1 is listed by node 3 -/
example : allFinished (runSched [[.createNode 0 0], [.createEdge 1 3 true 0 0]]
      [0, 0, 0, 0, 1, 1, 1, 1, 1, 1, 1, 1] twoNodes).1 = true ∧
    inL (runSched [[.createNode 0 0], [.createEdge 1 3 true 0 0]]
      [0, 0, 0, 0, 1, 1, 1, 1, 1, 1, 1, 1] twoNodes).2.kv 3 = [1] := by
  decide

/-- The order of `create_node`'s three store calls (e23bf6c3), for every id, payload and store: after
    the first two calls the two list keys hold the empty list and the visibility of the node is what
    it was; only the third call makes the node visible, and it ends the operation. -/
theorem create_node_record_written_last (id l v : Nat) (s : St) :
    let c1 := (createNodeFrom id l v).step s
    let c2 := c1.1.step c1.2
    let c3 := c2.1.step c2.2
    nodeEx c1.2.kv id = nodeEx s.kv id ∧ nodeEx c2.2.kv id = nodeEx s.kv id ∧
    c2.2.kv (.out id) = some (.list []) ∧ c2.2.kv (.inn id) = some (.list []) ∧
    c3.2.kv (.out id) = some (.list []) ∧ c3.2.kv (.inn id) = some (.list []) ∧
    nodeEx c3.2.kv id = true ∧ c3.1 = .done (.id id) := by
  simp [createNodeFrom, Prog.step, upd, nodeEx]

example : nodeEx ((createNodeFrom 3 0 0).step twoNodes).2.kv 3 = false := by decide

/-! ### concurrent: the batch calls -/

/-- `quiescent_wf_partial` with the batch calls: any number of threads, each running any list of
    `create_node`, `create_edge`, `delete_edge`, `update_node`, `add_label`, `remove_label`,
    `update_edge`, `batch_create_nodes`, `batch_create_edges`, `batch_delete_edges` and
    `batch_update_nodes` operations from any reachable store: for EVERY interleaving of their store calls that the list locks allow, once all
    threads have finished the store is well-formed.  A batch call is its sequence of store calls (the
    validation calls of all items first, one block of ids, then `create_edge_internal` /
    `create_node_internal` / `delete_edge` item by item), every adjacency-list append and removal in it
    under the lock of that list exactly as in the single operations — so the read-modify-write of a list
    inside a batch call is atomic w.r.t. every other writer of that list, single or batch, whichever
    thread runs it.  `batch_create_edges`, `batch_create_nodes` and `batch_update_nodes` take ANY items
    (endpoints that do not exist, that another thread is creating right now, self-loops, undirected,
    nodes that do not exist, empty input).
    Conditions (`AdmissibleB`): ids named by `delete_edge` / `update_edge` / `batch_delete_edges` were
    handed out before the phase; no edge both updated and deleted.
    What is missing w.r.t. the full statement (false: the witnesses above): `delete_node` and
    `batch_delete_nodes` (node deletion next to anything that touches the node), `update_edge` next to a
    delete of the same edge. -/
theorem quiescent_wf_with_batch_calls_partial (s0 : St) (h : Inv s0) (programs : List (List Op))
    (hadm : ∀ ops ∈ programs, ∀ op ∈ ops, AdmissibleB s0 programs op) : QuiescentWF s0 programs :=
  quiescentWF_of_admissibleB s0 h programs hadm

/-- the batch that runs in the regression witness below: one directed edge 1→2 -/
def bce12 : Op := .batchCreateEdges [⟨1, 2, true, 0, 0⟩]

/-- non-vacuity: `batch_create_edges [1→2]` next to `create_edge(1,2)` (the thread set of
    `batch_create_edges_without_stripe_lock_witness`), and a larger mix on one hub -/
example : QuiescentWF twoNodes [[bce12], [e12]] :=
  quiescent_wf_with_batch_calls_partial _ (wf_preserved _ _ inv_empty).1 _ (by
    intro ops hops op hop
    simp at hops
    rcases hops with rfl | rfl <;> simp at hop <;> subst hop <;> trivial)

example : QuiescentWF twoNodesTwoEdges
    [[.batchCreateEdges [⟨1, 2, false, 0, 0⟩, ⟨2, 2, true, 1, 1⟩, ⟨1, 9, true, 0, 0⟩], .batchDeleteEdges [2, 2, 1]],
     [.deleteEdge 1, .batchCreateNodes [(0, 0), (1, 1)], .createEdge 3 1 true 0 0],
     [.batchCreateEdges [⟨2, 1, true, 0, 1⟩], .batchUpdateNodes [(1, none, 3), (9, some 1, 1)]]] :=
  quiescent_wf_with_batch_calls_partial _ (wf_preserved _ _ inv_empty).1 _ (by
    intro ops hops op hop
    simp at hops
    rcases hops with rfl | rfl | rfl <;> simp at hop
    · rcases hop with rfl | rfl
      · trivial
      · intro e he; simp at he; rcases he with rfl | rfl <;> decide
    · rcases hop with rfl | rfl | rfl
      · show 1 ≤ twoNodesTwoEdges.ne; decide
      · trivial
      · trivial
    · rcases hop with rfl | rfl <;> trivial)

/-- … the schedule that breaks the variant without the lock (below) is, for the code as it is, a
    schedule in which `create_edge` meets the lock of `node:1:out` held by the batch call (its grants
    there do nothing); everything finishes, both edges are listed by both endpoints -/
example : allFinished (runSched [[bce12], [e12]]
      [0, 0, 0, 0, 0, 1, 1, 1, 1, 1, 1, 1, 1, 0, 0, 0, 1, 1, 1, 1, 1] twoNodes).1 = true ∧
    outL (runSched [[bce12], [e12]] [0, 0, 0, 0, 0, 1, 1, 1, 1, 1, 1, 1, 1, 0, 0, 0, 1, 1, 1, 1, 1] twoNodes).2.kv 1 = [1, 2] ∧
    inL (runSched [[bce12], [e12]] [0, 0, 0, 0, 0, 1, 1, 1, 1, 1, 1, 1, 1, 0, 0, 0, 1, 1, 1, 1, 1] twoNodes).2.kv 2 = [1, 2] := by
  decide

/-- A `batch_create_edges` whose per-edge body appends to the adjacency lists WITHOUT the list lock
    (`Op.progBatchWithoutStripeLock`: "the batch is one writer for phase 3", the get + put of
    `add_edge_to_list` called directly): the batch reads `node:1:out` (empty), `create_edge(1,2)` runs its
    whole read-modify-write of that list (it takes the lock, which nobody holds) and of `node:2:in`, the
    batch then writes its stale copy back: edge 2 exists, node 1 does not list it.  Same thread set as in
    the example above, where the code as it is (`Op.prog`) is covered by
    `quiescent_wf_with_batch_calls_partial`. -/
theorem batch_create_edges_without_stripe_lock_witness :
    ¬ QuiescentWFBatchWithoutStripeLock twoNodes [[bce12], [e12]] := by
  intro h
  have hw := h [0, 0, 0, 0, 0, 1, 1, 1, 1, 1, 1, 1, 1, 0, 0, 0] (by decide)
  have h1 := (hw.edge_listed 2 ⟨1, 2, true, 0, 0⟩ (by decide)).2.2.1
  exact absurd h1 (by decide)

/-! ### concurrent: EVERY operation — the read-modify-write sections of a list are mutually exclusive -/

/-- For EVERY list of operations per thread — all thirteen operations of the model with any arguments:
    `delete_node` with both of its paths, `batch_delete_nodes` and every other batch call included —
    from ANY store and under EVERY schedule: two threads are never inside a read-modify-write of the
    same adjacency list at the same time (`Thread.inRmw`: the thread's last store call was
    `store.get K`, its next one is `store.put K`; what the harness reads off a real thread's yield trace).
    So the write-back of `add_edge_to_list` / `remove_edge_from_list` never overwrites an update that
    another `add_edge_to_list` / `remove_edge_from_list` made after the read, whichever operation either
    of them is part of.  (`all_ops_WB`: in every operation every `get` of a list key followed by a `put` of
    that key is bracketed by the acquire and the release of that key's lock.)
    The statement is about list updates against list updates only: `delete_node` DELETES the lists of
    its node and `create_node` initialises them outside any section — the node-deletion race
    (`create_edge_delete_node_race_witness`) is not excluded by it. -/
theorem list_rmw_sections_exclusive (s0 : St) (programs : List (List Op)) (sched : List Nat)
    (i j : Nat) (ti tj : Thread) (K : Key) (hij : i ≠ j)
    (hi : (runSched programs sched s0).1[i]? = some ti) (hj : (runSched programs sched s0).1[j]? = some tj)
    (h : ti.inRmw K) : ¬ tj.inRmw K :=
  rmw_exclusive s0 programs sched i j ti tj K hij hi hj h

/-- non-vacuity: after five grants the batch call has read `node:1:out` and is about to write it … -/
example : ∃ t, (runSched [[bce12], [e12], [.deleteNode 2 []]] [0, 0, 0, 0, 0] twoNodes).1[0]? = some t ∧
    t.inRmw (.out 1) := ⟨_, rfl, by decide⟩

/-- … and whatever is granted to `create_edge(1,2)` from there, it does not get between that read and
    the write-back (here: it stops at the lock) -/
example : ∀ t, (runSched [[bce12], [e12]] [0, 0, 0, 0, 0, 1, 1, 1, 1, 1, 1, 1] twoNodes).1[1]? = some t →
    ¬ t.inRmw (.out 1) :=
  fun t ht => list_rmw_sections_exclusive twoNodes [[bce12], [e12]] [0, 0, 0, 0, 0, 1, 1, 1, 1, 1, 1, 1] 0 1 _ t (.out 1)
    (by decide) rfl ht (by decide)

/-- With `batch_create_edges` appending outside the lock (`Op.progBatchWithoutStripeLock`) the statement
    fails: after these ten grants BOTH threads have read `node:1:out` and are about to write it back. -/
theorem batch_without_stripe_lock_sections_overlap_witness :
    ∃ t0 t1, (runSchedWith Op.progBatchWithoutStripeLock [[bce12], [e12]] [0, 0, 0, 0, 0, 1, 1, 1, 1, 1] twoNodes).1[0]? = some t0 ∧
      (runSchedWith Op.progBatchWithoutStripeLock [[bce12], [e12]] [0, 0, 0, 0, 0, 1, 1, 1, 1, 1] twoNodes).1[1]? = some t1 ∧
      t0.inRmw (.out 1) ∧ t1.inRmw (.out 1) :=
  ⟨_, _, rfl, rfl, by decide, by decide⟩

/-! ### concurrent: operation sets with pairwise disjoint footprints (any operations) -/

/-- PARTIAL form of `QuiescentWF` for operations OUTSIDE `quiescent_wf_partial` (node creation and
    deletion, updates of edges being deleted).  Threads are programs (lists of atomic steps) with a
    footprint `F` (keys read or written) and a write footprint `W ⊆ F`; if the write footprint of every
    thread is disjoint from the footprint of every other thread (`Disjoint`), each thread alone stays
    inside its footprint from the initial store (`Stays`) and alone preserves `WF` on every store
    agreeing with the initial one on its footprint, then EVERY interleaving of the atomic steps that
    lets all threads finish ends in a well-formed store — in fact in the store of the serial run
    (`disjoint_interleaving_serial`).  `runP` ignores the list locks, so it has every interleaving
    of the locked code and more.
    What is missing w.r.t. the full statement (which is false, see the two witnesses above):
    operations whose footprints overlap and that are not covered by `quiescent_wf_partial`; the id
    allocation is outside the programs (ids are pre-assigned, the engine's atomic counters hand out
    distinct fresh ids); one operation per thread. Footprint facts are proved for `create_edge` and
    `delete_edge` (`createEdgeTh_ok`, `deleteEdgeTh_ok`). -/
theorem quiescent_wf_disjoint_partial (ts : List Th) (m0 : KV) (a b : Nat) (hwf : WF m0)
    (hst : ∀ (i : Nat) (t : Th), ts[i]? = some t → Stays t.F t.W t.p m0)
    (hsub : SubFW ts) (hdisj : Disjoint ts)
    (hpres : ∀ (i : Nat) (t : Th), ts[i]? = some t →
      ∀ m', WF m' → (∀ k, t.F k → m' k = m0 k) → WF (finalOf t.p m'))
    (sched : List Nat) (hdone : ∀ t ∈ (runP ts sched ⟨m0, a, b⟩).1, t.isDone = true) :
    WF (runP ts sched ⟨m0, a, b⟩).2.kv := by
  rw [disjoint_interleaving_serial ts m0 a b hst hsub hdisj sched hdone]
  exact serial_wf ts m0 hwf hst hsub hdisj hpres

/-- four nodes; `create_edge(1,2)` (id 1, undirected) and `create_edge(3,4)` (id 2) touch disjoint
    keys: every complete interleaving of their 17 + 9 steps is well-formed -/
def fourNodes : St := applyAll St.empty [.createNode 0 0, .createNode 0 0, .createNode 0 0, .createNode 0 0]

theorem disjoint_create_edges_wf (sched : List Nat)
    (hdone : ∀ t ∈ (runP [createEdgeTh 1 1 2 false 0 0, createEdgeTh 2 3 4 true 0 0] sched fourNodes).1,
      t.isDone = true) :
    WF (runP [createEdgeTh 1 1 2 false 0 0, createEdgeTh 2 3 4 true 0 0] sched fourNodes).2.kv := by
  have h1 := createEdgeTh_ok 1 1 2 false 0 0 fourNodes.kv (by decide) (by decide) (by decide)
  have h2 := createEdgeTh_ok 2 3 4 true 0 0 fourNodes.kv (by decide) (by decide) (by decide)
  have hcases : ∀ (i : Nat) (t : Th),
      [createEdgeTh 1 1 2 false 0 0, createEdgeTh 2 3 4 true 0 0][i]? = some t →
      (i = 0 ∧ t = createEdgeTh 1 1 2 false 0 0) ∨ (i = 1 ∧ t = createEdgeTh 2 3 4 true 0 0) := by
    intro i t h
    match i, h with
    | 0, h => simp at h; exact Or.inl ⟨rfl, h.symm⟩
    | 1, h => simp at h; exact Or.inr ⟨rfl, h.symm⟩
    | n + 2, h => simp at h
  apply quiescent_wf_disjoint_partial _ fourNodes.kv fourNodes.nn fourNodes.ne (wf_of_any_history _)
  · intro i t h; rcases hcases i t h with ⟨_, rfl⟩ | ⟨_, rfl⟩
    · exact h1.1 _
    · exact h2.1 _
  · intro i t h; rcases hcases i t h with ⟨_, rfl⟩ | ⟨_, rfl⟩
    · exact h1.2.1
    · exact h2.2.1
  · intro i j t u hij hi hj k hw hf
    rcases hcases i t hi with ⟨rfl, rfl⟩ | ⟨rfl, rfl⟩ <;> rcases hcases j u hj with ⟨rfl, rfl⟩ | ⟨rfl, rfl⟩
    · exact hij rfl
    · simp only [createEdgeTh] at hw hf; grind
    · simp only [createEdgeTh] at hw hf; grind
    · exact hij rfl
  · intro i t h; rcases hcases i t h with ⟨_, rfl⟩ | ⟨_, rfl⟩
    · exact h1.2.2
    · exact h2.2.2
  · exact hdone

/-- non-vacuity: a complete interleaving exists (alternating, then the rest of thread 0), and it is
    well-formed with both edges present -/
example : (runP [createEdgeTh 1 1 2 false 0 0, createEdgeTh 2 3 4 true 0 0]
    [0, 1, 0, 1, 0, 1, 0, 1, 0, 1, 0, 1, 0, 1, 0, 1, 0, 1, 0, 0, 0, 0, 0, 0, 0, 0] fourNodes).1.all Th.isDone = true := by decide

example : WF (runP [createEdgeTh 1 1 2 false 0 0, createEdgeTh 2 3 4 true 0 0]
    [0, 1, 0, 1, 0, 1, 0, 1, 0, 1, 0, 1, 0, 1, 0, 1, 0, 1, 0, 0, 0, 0, 0, 0, 0, 0] fourNodes).2.kv :=
  disjoint_create_edges_wf _ (by
    intro t ht
    have h : (runP [createEdgeTh 1 1 2 false 0 0, createEdgeTh 2 3 4 true 0 0]
      [0, 1, 0, 1, 0, 1, 0, 1, 0, 1, 0, 1, 0, 1, 0, 1, 0, 1, 0, 0, 0, 0, 0, 0, 0, 0] fourNodes).1.all Th.isDone = true := by decide
    exact List.all_eq_true.mp h t ht)

end Neumann.Graph.Props
