/-
  C05 — store-level model of `graph_engine` (create_node, create_edge, delete_edge,
  delete_node (sequential and >=100-edge "parallel" path), update_node, update_edge,
  neighbors, degree, traverse) over the `TensorStore` keys the engine uses:

    node:<n>       node record           Key.node n
    edge:<e>       edge record           Key.edge e
    node:<n>:out   outgoing edge ids     Key.out n
    node:<n>:in    incoming edge ids     Key.inn n

  Every public operation is a `Prog`: the sequence of atomic store calls
  (get / put / delete / exists, one per `TensorStore` call, in the order the
  Rust code issues them), each continuation receiving what the call returned.
  The sequential semantics is `run1` (run a program to completion); the
  concurrent semantics is `runThreads` (one store call of one thread per
  schedule entry, exactly what the deterministic scheduler of the harness
  lets a real thread do between two yield points).

  Since /repo 81b9c5b4 the read-modify-write of an adjacency list (`add_edge_to_list` /
  `remove_edge_from_list`) runs under `edge_list_lock(key)`: a write lock on one stripe of
  `index_locks`, the stripe chosen by a hash of the list key, taken BEFORE the `store.get`
  and released after the `store.put` (or after the `get` when the key is missing).  The model
  has one lock per list key (`Prog.acq k` / `Prog.rel k`).  In the code two different keys may
  share a stripe: that only adds blocking (fewer interleavings), never removes the mutual
  exclusion of two updates of the same key, so every real interleaving is an interleaving of
  the model.  Acquire and release are not yield points: they happen silently after the
  preceding store call; a thread whose next step is the acquire of a held lock cannot run.
  The programs of the code before the fix are kept as `…Old` (regression witnesses).

  Since /repo e23bf6c3 `create_node` writes the node's two empty lists BEFORE the node record
  (`createNodeFrom`); the order before that commit is kept as `createNodeFromOld` /
  `Op.progNodeFirst` (regression witness).
  `batch_unique_lock` is only taken when a unique constraint exists; the in-memory index
  maintenance uses the same stripes but holds them across no store call.

  Import-free, total, computable.
-/
namespace Neumann.Graph

inductive Key where
  | node (n : Nat)
  | edge (e : Nat)
  | out (n : Nat)
  | inn (n : Nat)
  deriving DecidableEq, Repr

structure EdgeRec where
  src : Nat
  dst : Nat
  directed : Bool
  ty : Nat
  ver : Nat
  deriving DecidableEq, Repr

inductive Val where
  | node (labels : List Nat) (ver : Nat)
  | edge (r : EdgeRec)
  | list (l : List Nat)
  deriving DecidableEq, Repr

abbrev KV := Key → Option Val

def upd (m : KV) (k : Key) (v : Option Val) : KV := fun x => if x = k then v else m x

/-- store + the two atomic id counters of the engine -/
structure St where
  kv : KV
  nn : Nat
  ne : Nat

def St.empty : St := ⟨fun _ => none, 0, 0⟩

/-! ### typed views of a stored value, as the engine decodes them -/

/-- `get_edge`: NotFound, or CorruptedEdge when `_from`/`_to` are missing — both "no edge" -/
def edgeOf : Option Val → Option EdgeRec
  | some (.edge r) => some r
  | _ => none

/-- `extract_edge_ids` of a tensor: a tensor without `_edges` is the empty list -/
def listOfVal : Val → List Nat
  | .list l => l
  | _ => []

/-- `get_edge_list`: a missing key is the empty list -/
def listOf : Option Val → List Nat
  | some v => listOfVal v
  | none => []

def nodeEx (m : KV) (n : Nat) : Bool := (m (.node n)).isSome
def edgeAt (m : KV) (e : Nat) : Option EdgeRec := edgeOf (m (.edge e))
def outL (m : KV) (n : Nat) : List Nat := listOf (m (.out n))
def inL (m : KV) (n : Nat) : List Nat := listOf (m (.inn n))

/-! ### results and programs -/

/-- why one item of a `batch_delete_*` call failed (the `cause` string of `GraphBatchItemError`) -/
inductive Cause where
  | notFound | storage | partialDel
  deriving DecidableEq, Repr

inductive Res where
  | id (n : Nat)
  | ok
  | nodeNotFound (n : Nat)
  | edgeNotFound (e : Nat)
  | storage
  | partialDel
  | ids (first cnt : Nat)                 -- `BatchResult`: created ids `first .. first+cnt-1`
  | batchInvalid (idx n : Nat)            -- `BatchValidationError { index, NodeNotFound(n) }`
  | batchDel (deleted : List Nat) (failed : List (Nat × Nat × Cause))   -- `BatchDeleteResult`
  | count (n : Nat)                       -- `batch_update_nodes`: number of updates applied
  deriving DecidableEq, Repr

inductive Prog where
  | done (r : Res)
  | get (k : Key) (c : Option Val → Prog)
  | put (k : Key) (v : Val) (c : Prog)
  | del (k : Key) (c : Bool → Prog)      -- `true` = key existed (Ok), `false` = NotFound error
  | ex (k : Key) (c : Bool → Prog)
  | allocN (c : Nat → Prog)              -- node_counter.fetch_add(1) + 1   (no yield point)
  | allocE (c : Nat → Prog)              -- edge_counter.fetch_add(1) + 1   (no yield point)
  | allocNs (cnt : Nat) (c : Nat → Prog) -- node_counter.fetch_add(cnt) + 1: first id of a block
  | allocEs (cnt : Nat) (c : Nat → Prog) -- edge_counter.fetch_add(cnt) + 1: first id of a block
  | acq (k : Key) (c : Prog)             -- edge_list_lock(k).write()        (no yield point, blocks)
  | rel (k : Key) (c : Prog)             -- drop of that guard               (no yield point)

/-- `add_edge_to_list`: lock the list; get (missing ⇒ new tensor), push unless present, put; unlock -/
def addTo (k : Key) (e : Nat) (c : Prog) : Prog :=
  .acq k <| .get k fun v =>
    .put k (.list (if e ∈ listOf v then listOf v else listOf v ++ [e])) (.rel k c)

/-- `remove_edge_from_list`: lock the list; get; if the key exists, filter and put back; unlock -/
def rmFrom (k : Key) (e : Nat) (c : Prog) : Prog :=
  .acq k <| .get k fun v =>
    match v with
    | none => .rel k c
    | some val => .put k (.list ((listOfVal val).filter (fun x => x != e))) (.rel k c)

/-- `add_edge_to_list` before 81b9c5b4: no lock -/
def addToOld (k : Key) (e : Nat) (c : Prog) : Prog :=
  .get k fun v =>
    .put k (.list (if e ∈ listOf v then listOf v else listOf v ++ [e])) c

/-- `remove_edge_from_list` before 81b9c5b4: no lock -/
def rmFromOld (k : Key) (e : Nat) (c : Prog) : Prog :=
  .get k fun v =>
    match v with
    | none => c
    | some val => .put k (.list ((listOfVal val).filter (fun x => x != e))) c

/-- `create_node_with_labels` / `create_node_internal` after validation and id allocation, since
    /repo e23bf6c3: the two empty adjacency lists are written FIRST, the node record (which makes the
    node visible to `node_exists` / `create_edge`) LAST -/
def createNodeFrom (id label v : Nat) : Prog :=
  .put (.out id) (.list []) <|
  .put (.inn id) (.list []) <|
  .put (.node id) (.node [label] v) <|
  .done (.id id)

def createNodeProg (label v : Nat) : Prog :=
  .allocN fun id => createNodeFrom id label v

/-- `create_node` before e23bf6c3: the node record first, the two empty lists afterwards (a
    `create_edge` that already saw the node had its list entry wiped) -/
def createNodeFromOld (id label v : Nat) : Prog :=
  .put (.node id) (.node [label] v) <|
  .put (.out id) (.list []) <|
  .put (.inn id) (.list []) <|
  .done (.id id)

def createNodeProgOld (label v : Nat) : Prog :=
  .allocN fun id => createNodeFromOld id label v

/-- `create_edge` after the existence checks and id allocation -/
def createEdgeFrom (eid a b : Nat) (d : Bool) (ty v : Nat) : Prog :=
  .put (.edge eid) (.edge ⟨a, b, d, ty, v⟩) <|
  addTo (.out a) eid <|
  addTo (.inn b) eid <|
  if d then .done (.id eid)
  else addTo (.out b) eid <| addTo (.inn a) eid <| .done (.id eid)

def createEdgeAlloc (a b : Nat) (d : Bool) (ty v : Nat) : Prog :=
  .allocE fun eid => createEdgeFrom eid a b d ty v

def createEdgeCheckB (a b : Nat) (d : Bool) (ty v : Nat) : Prog :=
  .ex (.node b) fun okb =>
    if !okb then .done (.nodeNotFound b) else createEdgeAlloc a b d ty v

def createEdgeProg (a b : Nat) (d : Bool) (ty v : Nat) : Prog :=
  .ex (.node a) fun oka =>
    if !oka then .done (.nodeNotFound a) else createEdgeCheckB a b d ty v

def createEdgeFromOld (eid a b : Nat) (d : Bool) (ty v : Nat) : Prog :=
  .put (.edge eid) (.edge ⟨a, b, d, ty, v⟩) <|
  addToOld (.out a) eid <|
  addToOld (.inn b) eid <|
  if d then .done (.id eid)
  else addToOld (.out b) eid <| addToOld (.inn a) eid <| .done (.id eid)

def createEdgeProgOld (a b : Nat) (d : Bool) (ty v : Nat) : Prog :=
  .ex (.node a) fun oka =>
    if !oka then .done (.nodeNotFound a)
    else .ex (.node b) fun okb =>
      if !okb then .done (.nodeNotFound b)
      else .allocE fun eid => createEdgeFromOld eid a b d ty v

def deleteEdgeBody (e : Nat) (r : EdgeRec) : Prog :=
  rmFrom (.out r.src) e <|
  rmFrom (.inn r.dst) e <|
  let tail : Prog := .del (.edge e) fun ok => .done (if ok then .ok else .storage)
  if r.directed then tail
  else rmFrom (.out r.dst) e <| rmFrom (.inn r.src) e <| tail

def deleteEdgeProg (e : Nat) : Prog :=
  .get (.edge e) fun v =>
    match edgeOf v with
    | none => .done (.edgeNotFound e)
    | some r => deleteEdgeBody e r

def deleteEdgeBodyOld (e : Nat) (r : EdgeRec) : Prog :=
  rmFromOld (.out r.src) e <|
  rmFromOld (.inn r.dst) e <|
  let tail : Prog := .del (.edge e) fun ok => .done (if ok then .ok else .storage)
  if r.directed then tail
  else rmFromOld (.out r.dst) e <| rmFromOld (.inn r.src) e <| tail

def deleteEdgeProgOld (e : Nat) : Prog :=
  .get (.edge e) fun v =>
    match edgeOf v with
    | none => .done (.edgeNotFound e)
    | some r => deleteEdgeBodyOld e r

/-- the per-edge clean-up of `delete_node` (both paths): only the OTHER endpoint's lists -/
def delNodeEdge (id e : Nat) (r : EdgeRec) (c : Prog) : Prog :=
  let other := if r.src = id then r.dst else r.src
  let c3 := if (!r.directed && other != id) then rmFrom (.out other) e (rmFrom (.inn other) e c) else c
  let c2 := if r.dst = id then rmFrom (.out other) e c3 else c3
  if r.src = id then rmFrom (.inn other) e c2 else c2

def delNodeEdgeOld (id e : Nat) (r : EdgeRec) (c : Prog) : Prog :=
  let other := if r.src = id then r.dst else r.src
  let c3 := if (!r.directed && other != id) then rmFromOld (.out other) e (rmFromOld (.inn other) e c) else c
  let c2 := if r.dst = id then rmFromOld (.out other) e c3 else c3
  if r.src = id then rmFromOld (.inn other) e c2 else c2

/-- sequential path (< PARALLEL_THRESHOLD edges): a missing edge record is skipped, the
    edge key is deleted regardless, errors of that delete are ignored (`.ok()`) -/
def delNodeLoop (id : Nat) : List Nat → Prog → Prog
  | [], c => c
  | e :: es, c =>
    .get (.edge e) fun v =>
      match edgeOf v with
      | some r => delNodeEdge id e r (.del (.edge e) fun _ => delNodeLoop id es c)
      | none => .del (.edge e) fun _ => delNodeLoop id es c

/-- "parallel" path (>= PARALLEL_THRESHOLD edges), one task per edge, here in list order:
    a missing edge record or a failed delete marks the edge as failed -/
def delNodeParLoop (id : Nat) : List Nat → Bool → (Bool → Prog) → Prog
  | [], failed, c => c failed
  | e :: es, failed, c =>
    .get (.edge e) fun v =>
      match edgeOf v with
      | some r => delNodeEdge id e r (.del (.edge e) fun ok => delNodeParLoop id es (failed || !ok) c)
      | none => delNodeParLoop id es true c

def delNodeParLoopOld (id : Nat) : List Nat → Bool → (Bool → Prog) → Prog
  | [], failed, c => c failed
  | e :: es, failed, c =>
    .get (.edge e) fun v =>
      match edgeOf v with
      | some r => delNodeEdgeOld id e r (.del (.edge e) fun ok => delNodeParLoopOld id es (failed || !ok) c)
      | none => delNodeParLoopOld id es true c

def delNodeTail (id : Nat) : Prog :=
  .del (.node id) fun ok1 =>
    if !ok1 then .done .storage
    else .del (.out id) fun ok2 =>
      if !ok2 then .done .storage
      else .del (.inn id) fun ok3 => .done (if ok3 then .ok else .storage)

def dedupNat : List Nat → List Nat
  | [] => []
  | x :: xs => x :: (dedupNat xs).filter (fun y => y != x)

/-- the engine iterates a `HashSet` of the incident edge ids: any order.  `hint` fixes the
    order (ids of the hint first, in hint order, then the rest). -/
def orderWith (hint all : List Nat) : List Nat :=
  dedupNat (hint.filter (fun x => all.contains x)) ++ all.filter (fun x => !hint.contains x)

def PARALLEL_THRESHOLD : Nat := 100

def deleteNodeProgT (thr : Nat) (id : Nat) (hint : List Nat) : Prog :=
  .get (.node id) fun v =>
    match v with
    | none => .done (.nodeNotFound id)
    | some _ =>
      .get (.out id) fun vo =>
        .get (.inn id) fun vi =>
          let all := dedupNat (listOf vo ++ listOf vi)
          let ord := orderWith hint all
          if all.length ≥ thr then
            delNodeParLoop id ord false fun failed =>
              if failed then .done .partialDel else delNodeTail id
          else delNodeLoop id ord (delNodeTail id)

def deleteNodeProg (id : Nat) (hint : List Nat) : Prog := deleteNodeProgT PARALLEL_THRESHOLD id hint

/-- `update_node`, the write: the node as read the second time, labels replaced when given -/
def updateNodePut (id : Nat) (lab : Option Nat) (v : Nat) (v2 : Option Val) : Prog :=
  match v2 with
  | none => .done (.nodeNotFound id)
  | some (.node l _) => .put (.node id) (.node ((lab.map fun x => [x]).getD l) v) (.done .ok)
  | some _ => .put (.node id) (.node ((lab.map fun x => [x]).getD []) v) (.done .ok)

def updateNodeSecond (id : Nat) (lab : Option Nat) (v : Nat) : Prog :=
  .get (.node id) (updateNodePut id lab v)

/-- `update_node`: get_node, get again, put (labels replaced when given, property set) -/
def updateNodeProg (id : Nat) (lab : Option Nat) (v : Nat) : Prog :=
  .get (.node id) fun v1 =>
    match v1 with
    | none => .done (.nodeNotFound id)
    | some _ => updateNodeSecond id lab v

/-- `update_edge`, the write: the record as read the second time with the property set -/
def updateEdgePut (e : Nat) (v : Nat) (v2 : Option Val) : Prog :=
  match v2 with
  | none => .done (.edgeNotFound e)
  | some (.edge r) => .put (.edge e) (.edge { r with ver := v }) (.done .ok)
  | some other => .put (.edge e) other (.done .ok)

def updateEdgeSecond (e : Nat) (v : Nat) : Prog :=
  .get (.edge e) (updateEdgePut e v)

/-- `update_edge`: get_edge, get again, put (property set; endpoints/type/direction kept) -/
def updateEdgeProg (e : Nat) (v : Nat) : Prog :=
  .get (.edge e) fun v1 =>
    match edgeOf v1 with
    | none => .done (.edgeNotFound e)
    | some _ => updateEdgeSecond e v


/-! ### sequencing, label updates, batch operations -/

/-- run `p`, hand its result to `k` (the `?` / `match` on the result of an inner call) -/
def Prog.bind : Prog → (Res → Prog) → Prog
  | .done r, k => k r
  | .get key c, k => .get key fun v => (c v).bind k
  | .put key v c, k => .put key v (c.bind k)
  | .del key c, k => .del key fun b => (c b).bind k
  | .ex key c, k => .ex key fun b => (c b).bind k
  | .allocN c, k => .allocN fun n => (c n).bind k
  | .allocE c, k => .allocE fun n => (c n).bind k
  | .allocNs cnt c, k => .allocNs cnt fun n => (c n).bind k
  | .allocEs cnt c, k => .allocEs cnt fun n => (c n).bind k
  | .acq key c, k => .acq key (c.bind k)
  | .rel key c, k => .rel key (c.bind k)

/-- `get_node(..).labels`: a tensor without `_labels` has none -/
def labelsOf : Val → List Nat
  | .node l _ => l
  | _ => []

def propOf : Val → Nat
  | .node _ v => v
  | _ => 0

/-- the write of `add_label` / `remove_label`: the record as read the SECOND time, its labels
    replaced by `labs` (computed from the FIRST read) -/
def labelPut (id : Nat) (labs : List Nat) (v2 : Option Val) : Prog :=
  match v2 with
  | none => .done (.nodeNotFound id)
  | some val2 => .put (.node id) (.node labs (propOf val2)) (.done .ok)

/-- `add_label`: get_node; nothing to do if the label is there; get again; put -/
def addLabelProg (id l : Nat) : Prog :=
  .get (.node id) fun v1 =>
    match v1 with
    | none => .done (.nodeNotFound id)
    | some val1 =>
      if l ∈ labelsOf val1 then .done .ok
      else .get (.node id) (labelPut id (labelsOf val1 ++ [l]))

/-- `remove_label`: get_node; nothing to do if the label is absent; get again; put -/
def removeLabelProg (id l : Nat) : Prog :=
  .get (.node id) fun v1 =>
    match v1 with
    | none => .done (.nodeNotFound id)
    | some val1 =>
      if l ∈ labelsOf val1 then .get (.node id) (labelPut id ((labelsOf val1).filter (fun x => x != l)))
      else .done .ok

structure EdgeIn where
  a : Nat
  b : Nat
  d : Bool
  ty : Nat
  v : Nat
  deriving DecidableEq, Repr

/-- phase 3 of `batch_create_nodes`: `create_node_internal` for the pre-allocated ids, in input
    order (for >= PARALLEL_THRESHOLD items the engine runs them on the rayon pool: the keys of
    different items are disjoint, the final store is the same) -/
def bcnLoop (start : Nat) : List (Nat × Nat) → Nat → Prog → Prog
  | [], _, c => c
  | (l, v) :: rest, i, c => (createNodeFrom (start + i) l v).bind fun _ => bcnLoop start rest (i + 1) c

/-- `batch_create_nodes`: empty input answers at once; ids are one block of the counter -/
def batchCreateNodesProg (items : List (Nat × Nat)) : Prog :=
  if items.isEmpty then .done (.ids 0 0)
  else .allocNs items.length fun start => bcnLoop start items 0 (.done (.ids start items.length))

/-- phase 1 of `batch_create_edges`: both endpoints of EVERY input must exist before anything is
    written; the first missing one fails the whole batch -/
def bceValidate : List EdgeIn → Nat → Prog → Prog
  | [], _, c => c
  | e :: es, idx, c =>
    .ex (.node e.a) fun oka =>
      if !oka then .done (.batchInvalid idx e.a)
      else .ex (.node e.b) fun okb =>
        if !okb then .done (.batchInvalid idx e.b) else bceValidate es (idx + 1) c

/-- phase 3 of `batch_create_edges`: `create_edge_internal` (no existence check) in input order -/
def bceLoop (start : Nat) : List EdgeIn → Nat → Prog → Prog
  | [], _, c => c
  | e :: es, i, c => (createEdgeFrom (start + i) e.a e.b e.d e.ty e.v).bind fun _ => bceLoop start es (i + 1) c

def batchCreateEdgesProg (items : List EdgeIn) : Prog :=
  if items.isEmpty then .done (.ids 0 0)
  else bceValidate items 0 <|
    .allocEs items.length fun start => bceLoop start items 0 (.done (.ids start items.length))

def causeOf : Res → Cause
  | .storage => .storage
  | .partialDel => .partialDel
  | _ => .notFound

/-- `batch_delete_edges`: `delete_edge` one after the other, failures collected -/
def bdeLoop : List Nat → Nat → List Nat → List (Nat × Nat × Cause) → Prog
  | [], _, del, fl => .done (.batchDel del.reverse fl.reverse)
  | e :: es, idx, del, fl =>
    (deleteEdgeProg e).bind fun r =>
      match r with
      | .ok => bdeLoop es (idx + 1) (e :: del) fl
      | r => bdeLoop es (idx + 1) del ((idx, e, causeOf r) :: fl)

def batchDeleteEdgesProg (ids : List Nat) : Prog := bdeLoop ids 0 [] []

/-- `batch_delete_nodes`: `delete_node` one after the other (each with the iteration order of its
    own edge set), failures collected -/
def bdnLoop : List (Nat × List Nat) → Nat → List Nat → List (Nat × Nat × Cause) → Prog
  | [], _, del, fl => .done (.batchDel del.reverse fl.reverse)
  | (n, hint) :: ns, idx, del, fl =>
    (deleteNodeProg n hint).bind fun r =>
      match r with
      | .ok => bdnLoop ns (idx + 1) (n :: del) fl
      | r => bdnLoop ns (idx + 1) del ((idx, n, causeOf r) :: fl)

def batchDeleteNodesProg (ids : List (Nat × List Nat)) : Prog := bdnLoop ids 0 [] []

/-- `batch_update_nodes`, validation: `get_node` of every id first; the first missing one fails
    the batch before any write -/
def bunValidate : List (Nat × Option Nat × Nat) → Nat → Prog → Prog
  | [], _, c => c
  | (id, _, _) :: us, idx, c =>
    .get (.node id) fun v =>
      match v with
      | none => .done (.batchInvalid idx id)
      | some _ => bunValidate us (idx + 1) c

/-- `batch_update_nodes`, application: `update_node` each, failures only not counted -/
def bunLoop : List (Nat × Option Nat × Nat) → Nat → Prog
  | [], cnt => .done (.count cnt)
  | (id, lab, v) :: us, cnt =>
    (updateNodeProg id lab v).bind fun r =>
      match r with
      | .ok => bunLoop us (cnt + 1)
      | _ => bunLoop us cnt

def batchUpdateNodesProg (us : List (Nat × Option Nat × Nat)) : Prog :=
  bunValidate us 0 (bunLoop us 0)

inductive Op where
  | createNode (label v : Nat)
  | createEdge (a b : Nat) (d : Bool) (ty v : Nat)
  | deleteEdge (e : Nat)
  | deleteNode (n : Nat) (hint : List Nat)
  | updateNode (n : Nat) (lab : Option Nat) (v : Nat)
  | updateEdge (e : Nat) (v : Nat)
  | addLabel (n l : Nat)
  | removeLabel (n l : Nat)
  | batchCreateNodes (items : List (Nat × Nat))
  | batchCreateEdges (items : List EdgeIn)
  | batchDeleteEdges (ids : List Nat)
  | batchDeleteNodes (ids : List (Nat × List Nat))
  | batchUpdateNodes (us : List (Nat × Option Nat × Nat))
  deriving Repr

def Op.prog : Op → Prog
  | .createNode l v => createNodeProg l v
  | .createEdge a b d ty v => createEdgeProg a b d ty v
  | .deleteEdge e => deleteEdgeProg e
  | .deleteNode n h => deleteNodeProg n h
  | .updateNode n l v => updateNodeProg n l v
  | .updateEdge e v => updateEdgeProg e v
  | .addLabel n l => addLabelProg n l
  | .removeLabel n l => removeLabelProg n l
  | .batchCreateNodes items => batchCreateNodesProg items
  | .batchCreateEdges items => batchCreateEdgesProg items
  | .batchDeleteEdges ids => batchDeleteEdgesProg ids
  | .batchDeleteNodes ids => batchDeleteNodesProg ids
  | .batchUpdateNodes us => batchUpdateNodesProg us

/-- the operations as they were before 81b9c5b4 (no list lock; `create_node` record first) -/
def Op.progOld : Op → Prog
  | .createEdge a b d ty v => createEdgeProgOld a b d ty v
  | .deleteEdge e => deleteEdgeProgOld e
  | .createNode l v => createNodeProgOld l v
  | op => op.prog

/-- the operations as they were between 81b9c5b4 and e23bf6c3: list lock in place, `create_node`
    still stores the node record before it initialises the two lists -/
def Op.progNodeFirst : Op → Prog
  | .createNode l v => createNodeProgOld l v
  | op => op.prog

/-- phase 3 of `batch_create_edges` with the per-edge body appending to the adjacency lists WITHOUT the
    list lock ("the batch is one writer for phase 3": the get + put of `add_edge_to_list` called directly,
    `createEdgeFromOld`).  Not the code: the model variant that mirrors that mistake (regression witness
    `batch_create_edges_without_stripe_lock_witness`). -/
def bceLoopNoLock (start : Nat) : List EdgeIn → Nat → Prog → Prog
  | [], _, c => c
  | e :: es, i, c =>
    (createEdgeFromOld (start + i) e.a e.b e.d e.ty e.v).bind fun _ => bceLoopNoLock start es (i + 1) c

def batchCreateEdgesProgNoLock (items : List EdgeIn) : Prog :=
  if items.isEmpty then .done (.ids 0 0)
  else bceValidate items 0 <|
    .allocEs items.length fun start => bceLoopNoLock start items 0 (.done (.ids start items.length))

/-- every operation as it is, except that `batch_create_edges` appends to the lists without the lock -/
def Op.progBatchWithoutStripeLock : Op → Prog
  | .batchCreateEdges items => batchCreateEdgesProgNoLock items
  | op => op.prog

/-! ### semantics -/

/-- one atomic store call (or counter increment); lock-oblivious (`acq`/`rel` are skipped): the
    semantics of a program run alone, and of the lock-free interleavings `runP` -/
def Prog.step : Prog → St → Prog × St
  | .done r, s => (.done r, s)
  | .get k c, s => (c (s.kv k), s)
  | .put k v c, s => (c, { s with kv := upd s.kv k (some v) })
  | .del k c, s => (c (s.kv k).isSome, { s with kv := upd s.kv k none })
  | .ex k c, s => (c (s.kv k).isSome, s)
  | .allocN c, s => (c (s.nn + 1), { s with nn := s.nn + 1 })
  | .allocE c, s => (c (s.ne + 1), { s with ne := s.ne + 1 })
  | .allocNs cnt c, s => (c (s.nn + 1), { s with nn := s.nn + cnt })
  | .allocEs cnt c, s => (c (s.ne + 1), { s with ne := s.ne + cnt })
  | .acq _ c, s => (c, s)
  | .rel _ c, s => (c, s)

/-- sequential execution of a whole program (alone, a lock is always free) -/
def run1 : Prog → St → Res × St
  | .done r, s => (r, s)
  | .get k c, s => run1 (c (s.kv k)) s
  | .put k v c, s => run1 c { s with kv := upd s.kv k (some v) }
  | .del k c, s => run1 (c (s.kv k).isSome) { s with kv := upd s.kv k none }
  | .ex k c, s => run1 (c (s.kv k).isSome) s
  | .allocN c, s => run1 (c (s.nn + 1)) { s with nn := s.nn + 1 }
  | .allocE c, s => run1 (c (s.ne + 1)) { s with ne := s.ne + 1 }
  | .allocNs cnt c, s => run1 (c (s.nn + 1)) { s with nn := s.nn + cnt }
  | .allocEs cnt c, s => run1 (c (s.ne + 1)) { s with ne := s.ne + cnt }
  | .acq _ c, s => run1 c s
  | .rel _ c, s => run1 c s

def apply (s : St) (op : Op) : Res × St := run1 op.prog s

def applyAll (s : St) : List Op → St
  | [] => s
  | op :: ops => applyAll (apply s op).2 ops

/-- the yield-point label of the next store call (`none`: no yield point before it) -/
inductive Site where
  | get | put | del | ex
  deriving DecidableEq, Repr

def Prog.label : Prog → Option (Site × Key)
  | .get k _ => some (.get, k)
  | .put k _ _ => some (.put, k)
  | .del k _ => some (.del, k)
  | .ex k _ => some (.ex, k)
  | _ => none

/-- a real thread runs a list of operations; `cur = none` before the first grant -/
structure Thread where
  cur : Option Prog
  rest : List Op
  results : List Res          -- newest first
  trace : List (Site × Key)   -- newest first

def Thread.ofOps (ops : List Op) : Thread := ⟨none, ops, [], []⟩

def Thread.finished (t : Thread) : Bool :=
  match t.cur, t.rest with
  | some (.done _), [] => true
  | _, _ => false

/-- what a thread is doing between two yield points: its program, the operations still to run,
    the results so far; the store with the counters; the list keys whose lock is held -/
structure Cfg where
  p : Prog
  rest : List Op
  rs : List Res
  s : St
  held : List Key

/-- one silent step (no yield point): a counter increment, the end of an operation (record the
    result, enter the next operation; `pf` says which program an operation is), a release, and —
    only when `take` — the acquire of a FREE list lock.  `none`: the thread is at a store call, has
    nothing left to do, or is at the acquire of a lock that is held (or that it may not take yet).

    The real thread takes the lock as soon as it can (right after its previous store call, or when
    the holder releases) and only then reaches the yield point of the list `store.get`.  The model
    takes the lock at the latest possible moment, at the beginning of the grant that performs that
    `store.get` (`take = true` only there): the model's critical sections are contained in the
    real ones, so whenever the real thread performs the `store.get` the model's lock is free. -/
def Cfg.silent (pf : Op → Prog) (take : Bool) (c : Cfg) : Option Cfg :=
  match c.p with
  | .allocN k => some { c with p := k (c.s.nn + 1), s := { c.s with nn := c.s.nn + 1 } }
  | .allocE k => some { c with p := k (c.s.ne + 1), s := { c.s with ne := c.s.ne + 1 } }
  | .allocNs cnt k => some { c with p := k (c.s.nn + 1), s := { c.s with nn := c.s.nn + cnt } }
  | .allocEs cnt k => some { c with p := k (c.s.ne + 1), s := { c.s with ne := c.s.ne + cnt } }
  | .done r =>
    match c.rest with
    | [] => none
    | op :: rest' => some { c with p := pf op, rest := rest', rs := r :: c.rs }
  | .acq k p' => if !take || c.held.contains k then none else some { c with p := p', held := k :: c.held }
  | .rel k p' => some { c with p := p', held := c.held.filter (fun x => x != k) }
  | _ => none

/-- run the silent part up to the next yield point (or the end, or a held lock).  `fuel` bounds the
    number of silent steps; between two store calls there are at most five (release, end of
    operation, counter increment / acquire). -/
def settle (pf : Op → Prog) (take : Bool) : Nat → Cfg → Cfg
  | 0, c => c
  | fuel + 1, c =>
    match c.silent pf take with
    | none => c
    | some c' => settle pf take fuel c'

def SETTLE_FUEL : Nat := 8

/-- one scheduler grant to a thread: take the list lock if the thread is at an acquire, perform
    the store call, run on to the next yield point or acquire.  If the lock is held (or the thread
    has finished) the grant does nothing: the thread is not runnable. -/
def Thread.turn (pf : Op → Prog) (t : Thread) (s : St) (held : List Key) : Thread × St × List Key :=
  match t.cur with
  | none =>
    -- `thread.start`: run up to the first store call of the first operation
    match t.rest with
    | [] => ({ t with cur := some (.done .ok) }, s, held)
    | op :: rest =>
      let c := settle pf false SETTLE_FUEL ⟨pf op, rest, t.results, s, held⟩
      ({ t with cur := some c.p, rest := c.rest, results := c.rs }, c.s, c.held)
  | some p =>
    let c0 := settle pf true SETTLE_FUEL ⟨p, t.rest, t.results, s, held⟩
    match c0.p.label with
    | none => ({ t with cur := some c0.p, rest := c0.rest, results := c0.rs }, c0.s, c0.held)
    | some lab =>
      let r := c0.p.step c0.s
      let c := settle pf false SETTLE_FUEL ⟨r.1, c0.rest, c0.rs, r.2, c0.held⟩
      ({ cur := some c.p, rest := c.rest, results := c.rs, trace := lab :: t.trace }, c.s, c.held)

/-- `true` when a grant lets the thread perform a store call (or start) -/
def Thread.runnable (pf : Op → Prog) (t : Thread) (s : St) (held : List Key) : Bool :=
  match t.cur with
  | none => true
  | some p => (settle pf true SETTLE_FUEL ⟨p, t.rest, t.results, s, held⟩).p.label.isSome

def setAt {α : Type} : List α → Nat → α → List α
  | [], _, _ => []
  | _ :: xs, 0, a => a :: xs
  | x :: xs, i + 1, a => x :: setAt xs i a

/-- interpret a schedule (thread index per scheduler grant) -/
def runThreads (pf : Op → Prog) : List Thread → List Nat → St → List Key → List Thread × St × List Key
  | ts, [], s, held => (ts, s, held)
  | ts, i :: sched, s, held =>
    match ts[i]? with
    | none => runThreads pf ts sched s held
    | some t =>
      let r := t.turn pf s held
      runThreads pf (setAt ts i r.1) sched r.2.1 r.2.2

/-- `runSchedWith pf programs schedule s`: every thread runs its list of operations, no lock held
    at the start -/
def runSchedWith (pf : Op → Prog) (programs : List (List Op)) (sched : List Nat) (s : St) : List Thread × St :=
  let r := runThreads pf (programs.map Thread.ofOps) sched s []
  (r.1, r.2.1)

def runSched (programs : List (List Op)) (sched : List Nat) (s : St) : List Thread × St :=
  runSchedWith Op.prog programs sched s

def allFinished (ts : List Thread) : Bool := ts.all Thread.finished

/-! ### queries (pure reads of a quiescent store) -/

inductive Dir where
  | outgoing | incoming | both
  deriving DecidableEq, Repr

def insertSorted (x : Nat) : List Nat → List Nat
  | [] => [x]
  | y :: ys => if x < y then x :: y :: ys else if x = y then y :: ys else y :: insertSorted x ys

def sortDedup (xs : List Nat) : List Nat := xs.foldr insertSorted []

def tyOk (ty : Option Nat) (r : EdgeRec) : Bool :=
  match ty with
  | none => true
  | some t => r.ty == t

/-- `neighbors`, outgoing half: for each listed edge that exists (and matches the type) -/
def nbrOut (m : KV) (n : Nat) (ty : Option Nat) : List Nat :=
  (outL m n).filterMap fun e =>
    match edgeAt m e with
    | none => none
    | some r =>
      if tyOk ty r then
        if r.src = n ∧ r.dst ≠ n then some r.dst
        else if r.dst = n ∧ r.src ≠ n then some r.src
        else none
      else none

def nbrIn (m : KV) (n : Nat) (ty : Option Nat) : List Nat :=
  (inL m n).filterMap fun e =>
    match edgeAt m e with
    | none => none
    | some r =>
      if tyOk ty r then
        if r.dst = n ∧ r.src ≠ n then some r.src
        else if r.src = n ∧ r.dst ≠ n then some r.dst
        else none
      else none

def nbrRaw (m : KV) (n : Nat) (dir : Dir) (ty : Option Nat) : List Nat :=
  (if dir = .outgoing ∨ dir = .both then nbrOut m n ty else []) ++
  (if dir = .incoming ∨ dir = .both then nbrIn m n ty else [])

/-- `neighbors(node, edge_type, direction, None)`: ids of the returned nodes, ascending;
    `none` = NodeNotFound -/
def neighbors (m : KV) (n : Nat) (dir : Dir) (ty : Option Nat) : Option (List Nat) :=
  if nodeEx m n then some (sortDedup ((nbrRaw m n dir ty).filter (nodeEx m))) else none

/-- `out_degree`, `in_degree`, `degree` -/
def outDegree (m : KV) (n : Nat) : Option Nat := if nodeEx m n then some (outL m n).length else none
def inDegree (m : KV) (n : Nat) : Option Nat := if nodeEx m n then some (inL m n).length else none
def degree (m : KV) (n : Nat) : Option Nat :=
  if nodeEx m n then some ((outL m n).length + (inL m n).length) else none

/-- `get_neighbor_ids_filtered` (used by `traverse`): note it differs from `neighbors` —
    it looks at `directed` -/
def travNbr (m : KV) (n : Nat) (dir : Dir) (ty : Option Nat) : List Nat :=
  let o := (outL m n).flatMap fun e =>
    match edgeAt m e with
    | none => []
    | some r => if tyOk ty r then
        (if r.src = n then [r.dst] else []) ++ (if (!r.directed) && r.dst = n then [r.src] else [])
      else []
  let i := (inL m n).flatMap fun e =>
    match edgeAt m e with
    | none => []
    | some r => if tyOk ty r then
        (if r.dst = n then [r.src] else []) ++ (if (!r.directed) && r.src = n then [r.dst] else [])
      else []
  ((if dir = .outgoing ∨ dir = .both then o else []) ++
   (if dir = .incoming ∨ dir = .both then i else [])).filter (fun x => x != n)

/-- breadth-first levels; `visited` accumulates every id ever queued -/
def travLevels (m : KV) (dir : Dir) (ty : Option Nat) : Nat → List Nat → List Nat → List Nat
  | 0, _, visited => visited
  | d + 1, frontier, visited =>
    let next := sortDedup ((frontier.flatMap fun n => travNbr m n dir ty).filter (fun x => !visited.contains x))
    if next.isEmpty then visited else travLevels m dir ty d next (visited ++ next)

/-- `traverse(start, direction, max_depth, edge_type, None)` as the SET of returned node ids
    (the engine's order among siblings is hash order); ids whose node record is missing are
    queued but not returned -/
def traverse (m : KV) (start : Nat) (dir : Dir) (depth : Nat) (ty : Option Nat) : Option (List Nat) :=
  if nodeEx m start then
    some (sortDedup ((travLevels m dir ty depth [start] [start]).filter (nodeEx m)))
  else none


/-! ### more observation points: edges_of, degree by type, scans, pagination -/

/-- ids `edges_of` / `edges_of_paginated` look at: both lists (as asked), deduplicated, ascending -/
def edgesOfIds (m : KV) (n : Nat) (dir : Dir) : List Nat :=
  sortDedup ((if dir = .outgoing ∨ dir = .both then outL m n else []) ++
             (if dir = .incoming ∨ dir = .both then inL m n else []))

/-- `get_edge` of each id, ids without a (well-formed) record skipped -/
def withRec (m : KV) (ids : List Nat) : List (Nat × EdgeRec) :=
  ids.filterMap fun e => (edgeAt m e).map fun r => (e, r)

/-- `edges_of(node, direction)`: `none` = NodeNotFound -/
def edgesOf (m : KV) (n : Nat) (dir : Dir) : Option (List (Nat × EdgeRec)) :=
  if nodeEx m n then some (withRec m (edgesOfIds m n dir)) else none

def pageOf {α : Type} (l : List α) (skip : Nat) (limit : Option Nat) : List α :=
  match limit with
  | none => l.drop skip
  | some k => (l.drop skip).take k

def hasMore (len skip : Nat) (limit : Option Nat) : Bool :=
  match limit with
  | none => false
  | some k => decide (len > skip + k)

/-- `edges_of_paginated`: (items, total_count, has_more); the page is cut from the id list BEFORE
    the records are fetched -/
def edgesOfPage (m : KV) (n : Nat) (dir : Dir) (skip : Nat) (limit : Option Nat) :
    Option (List (Nat × EdgeRec) × Nat × Bool) :=
  if nodeEx m n then
    some (withRec m (pageOf (edgesOfIds m n dir) skip limit), (edgesOfIds m n dir).length,
      hasMore (edgesOfIds m n dir).length skip limit)
  else none

/-- `neighbors_paginated(node, edge_type, direction, None, pagination)` -/
def neighborsPage (m : KV) (n : Nat) (dir : Dir) (ty : Option Nat) (skip : Nat) (limit : Option Nat) :
    Option (List Nat × Nat × Bool) :=
  match neighbors m n dir ty with
  | none => none
  | some l => some (pageOf l skip limit, l.length, hasMore l.length skip limit)

/-- listed edge ids whose record exists and has type `ty` -/
def countTy (m : KV) (l : List Nat) (ty : Nat) : Nat :=
  (l.filter fun e => match edgeAt m e with | some r => r.ty == ty | none => false).length

/-- `out_degree_by_type`, `in_degree_by_type`, `degree_by_type` -/
def outDegreeByType (m : KV) (n ty : Nat) : Option Nat :=
  if nodeEx m n then some (countTy m (outL m n) ty) else none
def inDegreeByType (m : KV) (n ty : Nat) : Option Nat :=
  if nodeEx m n then some (countTy m (inL m n) ty) else none
def degreeByType (m : KV) (n ty : Nat) : Option Nat :=
  if nodeEx m n then some (countTy m (outL m n) ty + countTy m (inL m n) ty) else none

/-- `all_edges()`: scan of the `edge:` keys (ids are at most the counter), records that decode,
    ascending by id -/
def allEdges (s : St) : List (Nat × EdgeRec) := withRec s.kv (List.range (s.ne + 1))

/-- `all_nodes()` / `get_all_node_ids()`: the `node:N` keys, ascending -/
def allNodeIds (s : St) : List Nat := (List.range (s.nn + 1)).filter fun n => nodeEx s.kv n

/-- `node_count()`, `edge_count()`: number of `node:N` / `edge:N` keys -/
def nodeCount (s : St) : Nat := (allNodeIds s).length
def edgeCount (s : St) : Nat :=
  ((List.range (s.ne + 1)).filter fun e => (s.kv (.edge e)).isSome).length

/-! ### re-opening an engine over an existing store -/

/-- largest `i ≤ n` with `p i`, `0` if none -/
def maxWhere (p : Nat → Bool) : Nat → Nat
  | 0 => 0
  | n + 1 => if p (n + 1) then n + 1 else maxWhere p n

/-- `GraphEngine::with_store(store)`: same store, the counters are re-derived as the largest id among
    the `node:N` keys resp. the `edge:N` keys (0 if none).  The scan sees every key; the model looks
    at ids up to the old counters, above which no key exists (`Inv.freshN`, `Inv.freshE`). -/
def reopen (s : St) : St :=
  ⟨s.kv, maxWhere (fun n => (s.kv (.node n)).isSome) s.nn, maxWhere (fun e => (s.kv (.edge e)).isSome) s.ne⟩

/-- a session: operations and re-openings -/
inductive Cmd where
  | op (o : Op)
  | reopen

def applyCmd (s : St) : Cmd → St
  | .op o => (apply s o).2
  | .reopen => reopen s

def applyCmds (s : St) : List Cmd → St
  | [] => s
  | c :: cs => applyCmds (applyCmd s c) cs

/-! ### executable well-formedness monitor (bounded by the id counters) -/

def edgeListedOk (m : KV) (e : Nat) (r : EdgeRec) : Bool :=
  nodeEx m r.src && nodeEx m r.dst && (outL m r.src).contains e && (inL m r.dst).contains e &&
  (r.directed || ((outL m r.dst).contains e && (inL m r.src).contains e))

def outEntryOk (m : KV) (n e : Nat) : Bool :=
  match edgeAt m e with
  | none => false
  | some r => r.src == n || (!r.directed && r.dst == n)

def inEntryOk (m : KV) (n e : Nat) : Bool :=
  match edgeAt m e with
  | none => false
  | some r => r.dst == n || (!r.directed && r.src == n)

def nodupB : List Nat → Bool
  | [] => true
  | x :: xs => !xs.contains x && nodupB xs

/-- first broken clause, if any, looking at ids `0..nn` / `0..ne` -/
def wfCheck (s : St) : Option String :=
  let ns := List.range (s.nn + 2)
  let es := List.range (s.ne + 2)
  if es.any (fun e => match edgeAt s.kv e with | some r => !edgeListedOk s.kv e r | none => false) then
    some "edge_not_listed_or_endpoint_missing"
  else if ns.any (fun n => (outL s.kv n).any (fun e => !outEntryOk s.kv n e)) then some "out_entry_dangling"
  else if ns.any (fun n => (inL s.kv n).any (fun e => !inEntryOk s.kv n e)) then some "in_entry_dangling"
  else if ns.any (fun n => !nodupB (outL s.kv n) || !nodupB (inL s.kv n)) then some "duplicate_entry"
  else none

end Neumann.Graph
