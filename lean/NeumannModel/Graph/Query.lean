import NeumannModel.Graph.Lemmas
/-
  C05 — neighbors / degree against the edge set: helper lemmas.
-/
set_option linter.unusedSimpArgs false
set_option linter.unusedVariables false
namespace Neumann.Graph

theorem mem_insertSorted {x y : Nat} {l : List Nat} : y ∈ insertSorted x l ↔ y = x ∨ y ∈ l := by
  induction l with
  | nil => simp [insertSorted]
  | cons z zs ih =>
    simp only [insertSorted]
    split
    · simp
    · split
      · rename_i h; subst h; simp
      · simp [ih]; grind

theorem mem_sortDedup {y : Nat} {l : List Nat} : y ∈ sortDedup l ↔ y ∈ l := by
  induction l with
  | nil => simp [sortDedup]
  | cons z zs ih =>
    have : sortDedup (z :: zs) = insertSorted z (sortDedup zs) := rfl
    rw [this, mem_insertSorted, ih]; simp

theorem sorted_insertSorted {x : Nat} {l : List Nat} (h : l.Pairwise (· < ·)) :
    (insertSorted x l).Pairwise (· < ·) := by
  induction l with
  | nil => simp [insertSorted]
  | cons z zs ih =>
    simp only [insertSorted]
    rw [List.pairwise_cons] at h
    split
    · rename_i hlt
      rw [List.pairwise_cons]
      refine ⟨?_, List.pairwise_cons.mpr h⟩
      intro a ha; simp at ha; rcases ha with rfl | ha
      · exact hlt
      · exact Nat.lt_trans hlt (h.1 a ha)
    · split
      · exact List.pairwise_cons.mpr h
      · rename_i h1 h2
        rw [List.pairwise_cons]
        refine ⟨?_, ih h.2⟩
        intro a ha; rw [mem_insertSorted] at ha
        rcases ha with rfl | ha
        · omega
        · exact h.1 a ha

theorem sorted_sortDedup (l : List Nat) : (sortDedup l).Pairwise (· < ·) := by
  induction l with
  | nil => simp [sortDedup]
  | cons z zs ih =>
    have : sortDedup (z :: zs) = insertSorted z (sortDedup zs) := rfl
    rw [this]; exact sorted_insertSorted ih

theorem length_eq_of_nodup_mem {l₁ l₂ : List Nat} (h₁ : l₁.Nodup) (h₂ : l₂.Nodup)
    (h : ∀ a, a ∈ l₁ ↔ a ∈ l₂) : l₁.length = l₂.length :=
  ((List.perm_ext_iff_of_nodup h₁ h₂).mpr h).length_eq


/-- `x` is adjacent to `n` in direction `dir` through an existing edge of the given type -/
def Adjacent (m : KV) (n : Nat) (dir : Dir) (ty : Option Nat) (x : Nat) : Prop :=
  ∃ e r, edgeAt m e = some r ∧ tyOk ty r = true ∧
    (((dir = .outgoing ∨ dir = .both) ∧
        ((r.src = n ∧ r.dst = x) ∨ (r.directed = false ∧ r.dst = n ∧ r.src = x))) ∨
     ((dir = .incoming ∨ dir = .both) ∧
        ((r.dst = n ∧ r.src = x) ∨ (r.directed = false ∧ r.src = n ∧ r.dst = x))))

theorem mem_nbrOut {m : KV} (h : WF m) {n x : Nat} {ty : Option Nat} :
    x ∈ nbrOut m n ty ↔ x ≠ n ∧ ∃ e r, edgeAt m e = some r ∧ tyOk ty r = true ∧
      ((r.src = n ∧ r.dst = x) ∨ (r.directed = false ∧ r.dst = n ∧ r.src = x)) := by
  simp only [nbrOut, List.mem_filterMap]
  constructor
  · rintro ⟨e, he, hx⟩
    obtain ⟨r, hr, ht⟩ := h.out_sound n e he
    simp only [hr] at hx
    by_cases hty : tyOk ty r = true
    · simp only [hty, if_true] at hx
      split at hx
      · rename_i hc; cases hx; exact ⟨fun hh => hc.2 hh, e, r, hr, hty, Or.inl ⟨hc.1, rfl⟩⟩
      · split at hx
        · rename_i hc1 hc; cases hx
          refine ⟨fun hh => hc.2 hh, e, r, hr, hty, ?_⟩
          rcases ht with ht | ht
          · exact absurd ht (by intro h1; exact hc.2 (by omega))
          · exact Or.inr ⟨ht.1, hc.1, rfl⟩
        · cases hx
    · simp [hty] at hx
  · rintro ⟨hne, e, r, hr, hty, hc⟩
    obtain ⟨_, _, h3, h4, h5⟩ := h.edge_listed e r hr
    refine ⟨e, ?_, ?_⟩
    · rcases hc with ⟨h1, _⟩ | ⟨hd, h1, _⟩
      · rw [← h1]; exact h3
      · rw [← h1]; exact (h5 hd).1
    · simp only [hr, hty, if_true]
      rcases hc with ⟨h1, h2⟩ | ⟨hd, h1, h2⟩
      · have : r.dst ≠ n := by omega
        simp [h1, this, h2, hne]
      · have : r.src ≠ n := by omega
        simp [h1, this, h2, hne]

theorem mem_nbrIn {m : KV} (h : WF m) {n x : Nat} {ty : Option Nat} :
    x ∈ nbrIn m n ty ↔ x ≠ n ∧ ∃ e r, edgeAt m e = some r ∧ tyOk ty r = true ∧
      ((r.dst = n ∧ r.src = x) ∨ (r.directed = false ∧ r.src = n ∧ r.dst = x)) := by
  simp only [nbrIn, List.mem_filterMap]
  constructor
  · rintro ⟨e, he, hx⟩
    obtain ⟨r, hr, ht⟩ := h.in_sound n e he
    simp only [hr] at hx
    by_cases hty : tyOk ty r = true
    · simp only [hty, if_true] at hx
      split at hx
      · rename_i hc; cases hx; exact ⟨fun hh => hc.2 hh, e, r, hr, hty, Or.inl ⟨hc.1, rfl⟩⟩
      · split at hx
        · rename_i hc1 hc; cases hx
          refine ⟨fun hh => hc.2 hh, e, r, hr, hty, ?_⟩
          rcases ht with ht | ht
          · exact absurd ht (by intro h1; exact hc.2 (by omega))
          · exact Or.inr ⟨ht.1, hc.1, rfl⟩
        · cases hx
    · simp [hty] at hx
  · rintro ⟨hne, e, r, hr, hty, hc⟩
    obtain ⟨_, _, h3, h4, h5⟩ := h.edge_listed e r hr
    refine ⟨e, ?_, ?_⟩
    · rcases hc with ⟨h1, _⟩ | ⟨hd, h1, _⟩
      · rw [← h1]; exact h4
      · rw [← h1]; exact (h5 hd).2
    · simp only [hr, hty, if_true]
      rcases hc with ⟨h1, h2⟩ | ⟨hd, h1, h2⟩
      · have : r.src ≠ n := by omega
        simp [h1, this, h2, hne]
      · have : r.dst ≠ n := by omega
        simp [h1, this, h2, hne]

theorem neighbors_char {m : KV} (h : WF m) {n : Nat} (dir : Dir) (ty : Option Nat)
    (hn : nodeEx m n = true) :
    ∃ l, neighbors m n dir ty = some l ∧ l.Pairwise (· < ·) ∧
      ∀ x, x ∈ l ↔ (x ≠ n ∧ Adjacent m n dir ty x) := by
  refine ⟨sortDedup ((nbrRaw m n dir ty).filter (nodeEx m)), by simp only [neighbors, hn, if_true], sorted_sortDedup _, ?_⟩
  intro x
  rw [mem_sortDedup, List.mem_filter]
  simp only [nbrRaw, List.mem_append]
  constructor
  · rintro ⟨hx, _⟩
    rcases hx with hx | hx
    · split at hx
      · rename_i hd
        obtain ⟨hne, e, r, hr, hty, hc⟩ := (mem_nbrOut h).mp hx
        exact ⟨hne, e, r, hr, hty, Or.inl ⟨hd, hc⟩⟩
      · cases hx
    · split at hx
      · rename_i hd
        obtain ⟨hne, e, r, hr, hty, hc⟩ := (mem_nbrIn h).mp hx
        exact ⟨hne, e, r, hr, hty, Or.inr ⟨hd, hc⟩⟩
      · cases hx
  · rintro ⟨hne, e, r, hr, hty, hc⟩
    obtain ⟨h1, h2, _⟩ := h.edge_listed e r hr
    have hxe : nodeEx m x = true := by
      rcases hc with ⟨_, ⟨_, hh⟩ | ⟨_, _, hh⟩⟩ | ⟨_, ⟨_, hh⟩ | ⟨_, _, hh⟩⟩ <;> rw [← hh] <;> assumption
    refine ⟨?_, hxe⟩
    rcases hc with ⟨hd, hc⟩ | ⟨hd, hc⟩
    · left; rw [if_pos hd]; exact (mem_nbrOut h).mpr ⟨hne, e, r, hr, hty, hc⟩
    · right; rw [if_pos hd]; exact (mem_nbrIn h).mpr ⟨hne, e, r, hr, hty, hc⟩

def OutIncident (m : KV) (n e : Nat) : Prop :=
  ∃ r, edgeAt m e = some r ∧ (r.src = n ∨ (r.directed = false ∧ r.dst = n))
def InIncident (m : KV) (n e : Nat) : Prop :=
  ∃ r, edgeAt m e = some r ∧ (r.dst = n ∨ (r.directed = false ∧ r.src = n))

theorem mem_outL_iff {m : KV} (h : WF m) (n e : Nat) : e ∈ outL m n ↔ OutIncident m n e := by
  constructor
  · exact h.out_sound n e
  · rintro ⟨r, hr, hc⟩
    obtain ⟨_, _, h3, _, h5⟩ := h.edge_listed e r hr
    rcases hc with rfl | ⟨hd, rfl⟩
    · exact h3
    · exact (h5 hd).1

theorem mem_inL_iff {m : KV} (h : WF m) (n e : Nat) : e ∈ inL m n ↔ InIncident m n e := by
  constructor
  · exact h.in_sound n e
  · rintro ⟨r, hr, hc⟩
    obtain ⟨_, _, _, h4, h5⟩ := h.edge_listed e r hr
    rcases hc with rfl | ⟨hd, rfl⟩
    · exact h4
    · exact (h5 hd).2


end Neumann.Graph
