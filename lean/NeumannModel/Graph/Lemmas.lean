import NeumannModel.Graph.Model
/-
  C05 — definitions of the property (WF, QuiescentWF) and helper lemmas.
-/
namespace Neumann.Graph

/-- Structural consistency of a quiescent store image:
    * every existing edge has both endpoints existing and is listed by both, in the right
      direction lists (an undirected edge in out+in of both endpoints);
    * every listed edge id exists and touches the listing node in that direction;
    * no list has duplicates. -/
structure WF (m : KV) : Prop where
  edge_listed : ∀ e r, edgeAt m e = some r →
    nodeEx m r.src = true ∧ nodeEx m r.dst = true ∧ e ∈ outL m r.src ∧ e ∈ inL m r.dst ∧
    (r.directed = false → e ∈ outL m r.dst ∧ e ∈ inL m r.src)
  out_sound : ∀ n e, e ∈ outL m n →
    ∃ r, edgeAt m e = some r ∧ (r.src = n ∨ (r.directed = false ∧ r.dst = n))
  in_sound : ∀ n e, e ∈ inL m n →
    ∃ r, edgeAt m e = some r ∧ (r.dst = n ∨ (r.directed = false ∧ r.src = n))
  out_nodup : ∀ n, (outL m n).Nodup
  in_nodup : ∀ n, (inL m n).Nodup

/-- The full concurrent statement: whatever the interleaving of the store steps of the threads'
    operations, once every thread has finished the store is well-formed. -/
def QuiescentWF (s0 : St) (programs : List (List Op)) : Prop :=
  ∀ sched, allFinished (runSched programs sched s0).1 = true →
    WF (runSched programs sched s0).2.kv

end Neumann.Graph
