import NeumannModel.Graph.Model
/-
  C05 — definitions of the property (WF, QuiescentWF) and helper lemmas.
-/
set_option linter.unusedSimpArgs false
set_option linter.unusedVariables false
namespace Neumann.Graph

/-- Structural consistency of a quiescent store image:
    * every existing edge has both endpoints existing and is listed by both, in the right
      direction lists (an undirected edge in out+in of both endpoints);
    * every listed edge id exists and touches the listing node in that direction;
    * no list has duplicates. -/
structure WF (m : KV) : Prop where
  edge_listed : ∀ e r, edgeAt m e = some r →
    nodeEx m r.src = true ∧ nodeEx m r.dst = true ∧ e ∈ outL m r.src ∧ e ∈ inL m r.dst ∧
    (r.directed = false → e ∈ outL m r.dst ∧ e ∈ inL m r.src)
  out_sound : ∀ n e, e ∈ outL m n →
    ∃ r, edgeAt m e = some r ∧ (r.src = n ∨ (r.directed = false ∧ r.dst = n))
  in_sound : ∀ n e, e ∈ inL m n →
    ∃ r, edgeAt m e = some r ∧ (r.dst = n ∨ (r.directed = false ∧ r.src = n))
  out_nodup : ∀ n, (outL m n).Nodup
  in_nodup : ∀ n, (inL m n).Nodup

/-- The full concurrent statement: whatever the interleaving of the store steps of the threads'
    operations, once every thread has finished the store is well-formed. -/
def QuiescentWF (s0 : St) (programs : List (List Op)) : Prop :=
  ∀ sched, allFinished (runSched programs sched s0).1 = true →
    WF (runSched programs sched s0).2.kv

/-- the same statement about the operations as they were before the list lock (`Op.progOld`) -/
def QuiescentWFOld (s0 : St) (programs : List (List Op)) : Prop :=
  ∀ sched, allFinished (runSchedWith Op.progOld programs sched s0).1 = true →
    WF (runSchedWith Op.progOld programs sched s0).2.kv

/-- the same statement about the operations as they were between 81b9c5b4 and e23bf6c3
    (`Op.progNodeFirst`: `create_node` stores the node record before its two empty lists) -/
def QuiescentWFNodeFirst (s0 : St) (programs : List (List Op)) : Prop :=
  ∀ sched, allFinished (runSchedWith Op.progNodeFirst programs sched s0).1 = true →
    WF (runSchedWith Op.progNodeFirst programs sched s0).2.kv

/-- the same statement about a `batch_create_edges` whose list appends are not under the list lock
    (`Op.progBatchWithoutStripeLock`) -/
def QuiescentWFBatchWithoutStripeLock (s0 : St) (programs : List (List Op)) : Prop :=
  ∀ sched, allFinished (runSchedWith Op.progBatchWithoutStripeLock programs sched s0).1 = true →
    WF (runSchedWith Op.progBatchWithoutStripeLock programs sched s0).2.kv

/-! ### generic graph-level lemmas (in terms of the four views of a store) -/

theorem wf_add_edge {m m' : KV} {eid a b : Nat} {d : Bool} {ty v : Nat}
    (h : WF m) (hfresh : edgeAt m eid = none) (ha : nodeEx m a = true) (hb : nodeEx m b = true)
    (hE : ∀ x, edgeAt m' x = if x = eid then some ⟨a, b, d, ty, v⟩ else edgeAt m x)
    (hN : ∀ n, nodeEx m' n = nodeEx m n)
    (hO : ∀ n x, x ∈ outL m' n ↔ x ∈ outL m n ∨ (x = eid ∧ (n = a ∨ (d = false ∧ n = b))))
    (hI : ∀ n x, x ∈ inL m' n ↔ x ∈ inL m n ∨ (x = eid ∧ (n = b ∨ (d = false ∧ n = a))))
    (hOd : ∀ n, (outL m' n).Nodup) (hId : ∀ n, (inL m' n).Nodup) : WF m' := by
  refine ⟨?_, ?_, ?_, hOd, hId⟩
  · intro e r he
    rw [hE] at he
    by_cases hx : e = eid
    · subst hx; simp at he; subst he
      simp [hN, ha, hb, hO, hI]
      intro hd; simp [hd]
    · simp [hx] at he
      obtain ⟨h1, h2, h3, h4, h5⟩ := h.edge_listed e r he
      simp only [hN, hO, hI]
      exact ⟨h1, h2, Or.inl h3, Or.inl h4, fun hd => ⟨Or.inl (h5 hd).1, Or.inl (h5 hd).2⟩⟩
  · intro n e he
    rw [hO] at he
    rw [hE]
    rcases he with he | ⟨rfl, hn⟩
    · obtain ⟨r, hr, ht⟩ := h.out_sound n e he
      have : e ≠ eid := by intro hx; subst hx; rw [hfresh] at hr; cases hr
      exact ⟨r, by simp [this, hr], ht⟩
    · refine ⟨⟨a, b, d, ty, v⟩, by simp, ?_⟩
      rcases hn with rfl | ⟨hd, rfl⟩
      · exact Or.inl rfl
      · exact Or.inr ⟨hd, rfl⟩
  · intro n e he
    rw [hI] at he
    rw [hE]
    rcases he with he | ⟨rfl, hn⟩
    · obtain ⟨r, hr, ht⟩ := h.in_sound n e he
      have : e ≠ eid := by intro hx; subst hx; rw [hfresh] at hr; cases hr
      exact ⟨r, by simp [this, hr], ht⟩
    · refine ⟨⟨a, b, d, ty, v⟩, by simp, ?_⟩
      rcases hn with rfl | ⟨hd, rfl⟩
      · exact Or.inl rfl
      · exact Or.inr ⟨hd, rfl⟩

/-- removing edge `e` (record `r`) and its entries -/
theorem wf_remove_edge {m m' : KV} {e : Nat}
    (h : WF m)
    (hE : ∀ x, edgeAt m' x = if x = e then none else edgeAt m x)
    (hN : ∀ n, nodeEx m' n = nodeEx m n)
    (hO : ∀ n x, x ∈ outL m' n ↔ x ∈ outL m n ∧ x ≠ e)
    (hI : ∀ n x, x ∈ inL m' n ↔ x ∈ inL m n ∧ x ≠ e)
    (hOd : ∀ n, (outL m' n).Nodup) (hId : ∀ n, (inL m' n).Nodup) : WF m' := by
  refine ⟨?_, ?_, ?_, hOd, hId⟩
  · intro x rx hx
    rw [hE] at hx
    by_cases hxe : x = e
    · simp [hxe] at hx
    · simp [hxe] at hx
      obtain ⟨h1, h2, h3, h4, h5⟩ := h.edge_listed x rx hx
      simp only [hN, hO, hI]
      exact ⟨h1, h2, ⟨h3, hxe⟩, ⟨h4, hxe⟩, fun hd => ⟨⟨(h5 hd).1, hxe⟩, ⟨(h5 hd).2, hxe⟩⟩⟩
  · intro n x hx
    rw [hO] at hx
    obtain ⟨rx, hrx, ht⟩ := h.out_sound n x hx.1
    exact ⟨rx, by rw [hE]; simp [hx.2, hrx], ht⟩
  · intro n x hx
    rw [hI] at hx
    obtain ⟨rx, hrx, ht⟩ := h.in_sound n x hx.1
    exact ⟨rx, by rw [hE]; simp [hx.2, hrx], ht⟩

/-- removing a node that no list entry / edge refers to -/
theorem wf_remove_isolated_node {m m' : KV} {id : Nat}
    (h : WF m) (ho : outL m id = []) (hi : inL m id = [])
    (hE : ∀ x, edgeAt m' x = edgeAt m x)
    (hN : ∀ n, nodeEx m' n = (nodeEx m n && decide (n ≠ id)))
    (hO : ∀ n, outL m' n = outL m n)
    (hI : ∀ n, inL m' n = inL m n) : WF m' := by
  refine ⟨?_, ?_, ?_, ?_, ?_⟩
  · intro x rx hx
    rw [hE] at hx
    obtain ⟨h1, h2, h3, h4, h5⟩ := h.edge_listed x rx hx
    have hs : rx.src ≠ id := by intro hh; rw [hh, ho] at h3; cases h3
    have hd : rx.dst ≠ id := by intro hh; rw [hh, hi] at h4; cases h4
    simp only [hN, hO, hI]
    exact ⟨by simp [h1, hs], by simp [h2, hd], h3, h4, h5⟩
  · intro n x hx
    rw [hO] at hx
    obtain ⟨rx, hrx, ht⟩ := h.out_sound n x hx
    exact ⟨rx, by rw [hE]; exact hrx, ht⟩
  · intro n x hx
    rw [hI] at hx
    obtain ⟨rx, hrx, ht⟩ := h.in_sound n x hx
    exact ⟨rx, by rw [hE]; exact hrx, ht⟩
  · intro n; rw [hO]; exact h.out_nodup n
  · intro n; rw [hI]; exact h.in_nodup n

/-- same shape: node existence and lists unchanged, edge records keep endpoints and direction -/
theorem wf_same_shape {m m' : KV} (h : WF m)
    (hE : ∀ x r', edgeAt m' x = some r' →
      ∃ r, edgeAt m x = some r ∧ r'.src = r.src ∧ r'.dst = r.dst ∧ r'.directed = r.directed)
    (hE2 : ∀ x r, edgeAt m x = some r →
      ∃ r', edgeAt m' x = some r' ∧ r'.src = r.src ∧ r'.dst = r.dst ∧ r'.directed = r.directed)
    (hN : ∀ n, nodeEx m n = true → nodeEx m' n = true)
    (hO : ∀ n, outL m' n = outL m n)
    (hI : ∀ n, inL m' n = inL m n) : WF m' := by
  refine ⟨?_, ?_, ?_, ?_, ?_⟩
  · intro x r' hx
    obtain ⟨r, hr, e1, e2, e3⟩ := hE x r' hx
    obtain ⟨h1, h2, h3, h4, h5⟩ := h.edge_listed x r hr
    simp only [hO, hI, e1, e2, e3]
    exact ⟨hN _ h1, hN _ h2, h3, h4, h5⟩
  · intro n x hx
    rw [hO] at hx
    obtain ⟨r, hr, ht⟩ := h.out_sound n x hx
    obtain ⟨r', hr', e1, e2, e3⟩ := hE2 x r hr
    exact ⟨r', hr', by rw [e1, e2, e3]; exact ht⟩
  · intro n x hx
    rw [hI] at hx
    obtain ⟨r, hr, ht⟩ := h.in_sound n x hx
    obtain ⟨r', hr', e1, e2, e3⟩ := hE2 x r hr
    exact ⟨r', hr', by rw [e1, e2, e3]; exact ht⟩
  · intro n; rw [hO]; exact h.out_nodup n
  · intro n; rw [hI]; exact h.in_nodup n

/-- a node that does not exist has empty lists in a well-formed store -/
theorem WF.lists_of_missing_node {m : KV} (h : WF m) {n : Nat} (hn : nodeEx m n = false) :
    outL m n = [] ∧ inL m n = [] := by
  constructor
  · cases ho : outL m n with
    | nil => rfl
    | cons x xs =>
      obtain ⟨r, hr, ht⟩ := h.out_sound n x (by rw [ho]; simp)
      obtain ⟨h1, h2, _⟩ := h.edge_listed x r hr
      rcases ht with rfl | ⟨_, rfl⟩
      · rw [hn] at h1; cases h1
      · rw [hn] at h2; cases h2
  · cases hi : inL m n with
    | nil => rfl
    | cons x xs =>
      obtain ⟨r, hr, ht⟩ := h.in_sound n x (by rw [hi]; simp)
      obtain ⟨h1, h2, _⟩ := h.edge_listed x r hr
      rcases ht with rfl | ⟨_, rfl⟩
      · rw [hn] at h2; cases h2
      · rw [hn] at h1; cases h1

/-! ### views of an updated store -/

def ins (l : List Nat) (e : Nat) : List Nat := if e ∈ l then l else l ++ [e]

theorem mem_ins {l : List Nat} {e x : Nat} : x ∈ ins l e ↔ x ∈ l ∨ x = e := by
  unfold ins; split
  · constructor
    · exact Or.inl
    · rintro (h | rfl) <;> assumption
  · simp

theorem nodup_ins {l : List Nat} {e : Nat} (h : l.Nodup) : (ins l e).Nodup := by
  unfold ins; split
  · exact h
  · rename_i hne
    rw [List.nodup_append]
    refine ⟨h, by simp, ?_⟩
    intro a ha b hb
    simp at hb; subst hb
    intro hab; subst hab; exact hne ha

@[simp] theorem outL_upd (m : KV) (k : Key) (v : Option Val) (n : Nat) :
    outL (upd m k v) n = if Key.out n = k then listOf v else outL m n := by
  unfold outL upd; split <;> rfl
@[simp] theorem inL_upd (m : KV) (k : Key) (v : Option Val) (n : Nat) :
    inL (upd m k v) n = if Key.inn n = k then listOf v else inL m n := by
  unfold inL upd; split <;> rfl
@[simp] theorem edgeAt_upd (m : KV) (k : Key) (v : Option Val) (e : Nat) :
    edgeAt (upd m k v) e = if Key.edge e = k then edgeOf v else edgeAt m e := by
  unfold edgeAt upd; split <;> rfl
@[simp] theorem nodeEx_upd (m : KV) (k : Key) (v : Option Val) (n : Nat) :
    nodeEx (upd m k v) n = if Key.node n = k then v.isSome else nodeEx m n := by
  unfold nodeEx upd; split <;> rfl

/-- `remove_edge_from_list` as a store transformer -/
def rmKV (m : KV) (k : Key) (e : Nat) : KV :=
  match m k with
  | none => m
  | some val => upd m k (some (.list ((listOfVal val).filter (fun x => x != e))))

theorem run1_addTo (k : Key) (e : Nat) (c : Prog) (s : St) :
    run1 (addTo k e c) s = run1 c { s with kv := upd s.kv k (some (.list (ins (listOf (s.kv k)) e))) } := rfl

theorem run1_rmFrom (k : Key) (e : Nat) (c : Prog) (s : St) :
    run1 (rmFrom k e c) s = run1 c { s with kv := rmKV s.kv k e } := by
  unfold rmFrom rmKV
  rw [run1, run1]
  cases h : s.kv k with
  | none => simp [run1]
  | some val => simp [run1]

theorem outL_rmKV (m : KV) (k : Key) (e n : Nat) :
    outL (rmKV m k e) n = if Key.out n = k then (outL m n).filter (fun x => x != e) else outL m n := by
  unfold rmKV
  cases h : m k with
  | none =>
    simp only
    split
    · rename_i hk; subst hk; simp [outL, h, listOf]
    · rfl
  | some val =>
    simp only [outL_upd]
    split
    · rename_i hk; subst hk; simp [outL, h, listOf, listOfVal]
    · rfl

theorem inL_rmKV (m : KV) (k : Key) (e n : Nat) :
    inL (rmKV m k e) n = if Key.inn n = k then (inL m n).filter (fun x => x != e) else inL m n := by
  unfold rmKV
  cases h : m k with
  | none =>
    simp only
    split
    · rename_i hk; subst hk; simp [inL, h, listOf]
    · rfl
  | some val =>
    simp only [inL_upd]
    split
    · rename_i hk; subst hk; simp [inL, h, listOf, listOfVal]
    · rfl

theorem edgeAt_rmKV_out (m : KV) (n e x : Nat) : edgeAt (rmKV m (.out n) e) x = edgeAt m x := by
  unfold rmKV; split <;> simp
theorem edgeAt_rmKV_inn (m : KV) (n e x : Nat) : edgeAt (rmKV m (.inn n) e) x = edgeAt m x := by
  unfold rmKV; split <;> simp
theorem nodeEx_rmKV_out (m : KV) (n e x : Nat) : nodeEx (rmKV m (.out n) e) x = nodeEx m x := by
  unfold rmKV; split <;> simp
theorem nodeEx_rmKV_inn (m : KV) (n e x : Nat) : nodeEx (rmKV m (.inn n) e) x = nodeEx m x := by
  unfold rmKV; split <;> simp


/-! ### the sequential invariant and its preservation, operation by operation -/

structure Inv (s : St) : Prop where
  wf : WF s.kv
  freshN : ∀ n, s.nn < n → nodeEx s.kv n = false
  freshE : ∀ e, s.ne < e → edgeAt s.kv e = none
  keys : ∀ n, nodeEx s.kv n = true → (s.kv (.out n)).isSome = true ∧ (s.kv (.inn n)).isSome = true

theorem inv_empty : Inv St.empty := by
  refine ⟨⟨?_, ?_, ?_, ?_, ?_⟩, ?_, ?_, ?_⟩ <;> intros <;> simp_all [St.empty, edgeAt, edgeOf, outL, inL, listOf, nodeEx]

theorem inv_createNode (s : St) (l v : Nat) (h : Inv s) : Inv (apply s (.createNode l v)).2 := by
  have hn := h.freshN (s.nn + 1) (by omega)
  obtain ⟨ho, hi⟩ := h.wf.lists_of_missing_node hn
  simp only [apply, Op.prog, createNodeProg, createNodeFrom, run1]
  refine ⟨?_, ?_, ?_, ?_⟩
  · apply wf_same_shape h.wf
    · intro x r' hx; simp at hx; exact ⟨r', hx, rfl, rfl, rfl⟩
    · intro x r hx; exact ⟨r, by simp [hx], rfl, rfl, rfl⟩
    · intro n hn'; simp; exact Or.inr hn'
    · intro n; simp; intro hh; subst hh; simp [listOf, listOfVal, ho]
    · intro n; simp; intro hh; subst hh; simp [listOf, listOfVal, hi]
  · intro n hlt; simp at hlt ⊢
    have : n ≠ s.nn + 1 := by omega
    simp [this]; exact h.freshN n (by omega)
  · intro e hlt; simp at hlt ⊢; exact h.freshE e hlt
  · intro n hn'; simp at hn'
    by_cases hx : n = s.nn + 1
    · subst hx; simp [upd]
    · simp [hx] at hn'; have := h.keys n hn'; simp [upd, hx, this]


@[simp] theorem listOf_some_list (l : List Nat) : listOf (some (Val.list l)) = l := rfl
@[simp] theorem edgeOf_some_edge (r : EdgeRec) : edgeOf (some (Val.edge r)) = some r := rfl
@[simp] theorem edgeOf_none : edgeOf none = none := rfl
@[simp] theorem listOf_none : listOf none = [] := rfl

theorem run1_addTo_out (n e : Nat) (c : Prog) (s : St) :
    run1 (addTo (.out n) e c) s = run1 c { s with kv := upd s.kv (.out n) (some (.list (ins (outL s.kv n) e))) } := rfl
theorem run1_addTo_inn (n e : Nat) (c : Prog) (s : St) :
    run1 (addTo (.inn n) e c) s = run1 c { s with kv := upd s.kv (.inn n) (some (.list (ins (inL s.kv n) e))) } := rfl

theorem ins_ins (l : List Nat) (e : Nat) : ins (ins l e) e = ins l e := by
  have : e ∈ ins l e := mem_ins.mpr (Or.inr rfl)
  rw [ins.eq_1 (ins l e)]
  simp [this]

theorem createEdgeFrom_spec (s : St) (eid a b : Nat) (d : Bool) (ty v : Nat) :
    (run1 (createEdgeFrom eid a b d ty v) s).2.nn = s.nn ∧
    (run1 (createEdgeFrom eid a b d ty v) s).2.ne = s.ne ∧
    (∀ x, edgeAt (run1 (createEdgeFrom eid a b d ty v) s).2.kv x =
        if x = eid then some ⟨a, b, d, ty, v⟩ else edgeAt s.kv x) ∧
    (∀ n, nodeEx (run1 (createEdgeFrom eid a b d ty v) s).2.kv n = nodeEx s.kv n) ∧
    (∀ n, outL (run1 (createEdgeFrom eid a b d ty v) s).2.kv n =
        if n = a ∨ (d = false ∧ n = b) then ins (outL s.kv n) eid else outL s.kv n) ∧
    (∀ n, inL (run1 (createEdgeFrom eid a b d ty v) s).2.kv n =
        if n = b ∨ (d = false ∧ n = a) then ins (inL s.kv n) eid else inL s.kv n) ∧
    (∀ k, (s.kv k).isSome = true → ((run1 (createEdgeFrom eid a b d ty v) s).2.kv k).isSome = true) := by
  cases d with
  | true =>
    simp only [createEdgeFrom, run1, run1_addTo_out, run1_addTo_inn, if_true]
    refine ⟨trivial, trivial, ?_, ?_, ?_, ?_, ?_⟩
    · intro x; simp [eq_comm]
    · intro n; simp
    · intro n; simp; grind
    · intro n; simp; grind
    · intro k hk; simp only [upd]; repeat' split
      all_goals first | rfl | exact hk
  | false =>
    simp only [createEdgeFrom, Bool.false_eq_true, ↓reduceIte, run1, run1_addTo_out, run1_addTo_inn]
    refine ⟨trivial, trivial, ?_, ?_, ?_, ?_, ?_⟩
    · intro x; simp [eq_comm]
    · intro n; simp
    · intro n; simp; grind [ins_ins]
    · intro n; simp; grind [ins_ins]
    · intro k hk; simp only [upd]; repeat' split
      all_goals first | rfl | exact hk

theorem wf_createEdgeFrom (s : St) (eid a b : Nat) (d : Bool) (ty v : Nat)
    (h : WF s.kv) (hf : edgeAt s.kv eid = none) (ha : nodeEx s.kv a = true) (hb : nodeEx s.kv b = true) :
    WF (run1 (createEdgeFrom eid a b d ty v) s).2.kv := by
  obtain ⟨_, _, hE, hN, hO, hI, _⟩ := createEdgeFrom_spec s eid a b d ty v
  apply wf_add_edge (eid := eid) (a := a) (b := b) (d := d) (ty := ty) (v := v) h hf ha hb hE hN
  · intro n x; rw [hO]; split
    · rw [mem_ins]; grind
    · grind
  · intro n x; rw [hI]; split
    · rw [mem_ins]; grind
    · grind
  · intro n; rw [hO]; split
    · exact nodup_ins (h.out_nodup _)
    · exact h.out_nodup _
  · intro n; rw [hI]; split
    · exact nodup_ins (h.in_nodup _)
    · exact h.in_nodup _

theorem inv_createEdge (s : St) (a b : Nat) (d : Bool) (ty v : Nat) (h : Inv s) :
    Inv (apply s (.createEdge a b d ty v)).2 := by
  simp only [apply, Op.prog, createEdgeProg, createEdgeCheckB, createEdgeAlloc, run1]
  by_cases ha : (s.kv (.node a)).isSome = true
  · by_cases hb : (s.kv (.node b)).isSome = true
    · simp only [ha, hb, Bool.not_true, Bool.false_eq_true, ↓reduceIte, run1]
      have hf := h.freshE (s.ne + 1) (by omega)
      obtain ⟨e1, e2, hE, hN, hO, hI, hK⟩ := createEdgeFrom_spec { s with ne := s.ne + 1 } (s.ne + 1) a b d ty v
      refine ⟨wf_createEdgeFrom _ _ a b d ty v h.wf hf ha hb, ?_, ?_, ?_⟩
      · intro n hn; rw [hN]; rw [e1] at hn; exact h.freshN n hn
      · intro e he; rw [hE]; rw [e2] at he; simp at he
        have : e ≠ s.ne + 1 := by omega
        simp [this]; exact h.freshE e (by omega)
      · intro n hn; rw [hN] at hn; exact ⟨hK _ (h.keys n hn).1, hK _ (h.keys n hn).2⟩
    · simp only [ha, hb, Bool.not_true, Bool.not_false, Bool.false_eq_true, ↓reduceIte, run1]; exact h
  · simp only [ha, Bool.not_false, ↓reduceIte, run1]; exact h


def rmv (l : List Nat) (e : Nat) : List Nat := l.filter (fun x => x != e)
theorem mem_rmv {l : List Nat} {e x : Nat} : x ∈ rmv l e ↔ x ∈ l ∧ x ≠ e := by simp [rmv]
theorem rmv_rmv (l : List Nat) (e : Nat) : rmv (rmv l e) e = rmv l e := by simp [rmv, List.filter_filter]
theorem nodup_rmv {l : List Nat} {e : Nat} (h : l.Nodup) : (rmv l e).Nodup := List.Nodup.sublist List.filter_sublist h

theorem outL_rmKV' (m : KV) (k : Key) (e n : Nat) :
    outL (rmKV m k e) n = if Key.out n = k then rmv (outL m n) e else outL m n := outL_rmKV m k e n
theorem inL_rmKV' (m : KV) (k : Key) (e n : Nat) :
    inL (rmKV m k e) n = if Key.inn n = k then rmv (inL m n) e else inL m n := inL_rmKV m k e n

theorem isSome_rmKV (m : KV) (k : Key) (e : Nat) (k' : Key) : (rmKV m k e k').isSome = (m k').isSome := by
  unfold rmKV
  cases h : m k with
  | none => rfl
  | some val => simp only [upd]; split
                · rename_i hk; subst hk; simp [h]
                · rfl

theorem deleteEdgeBody_spec (s : St) (e : Nat) (r : EdgeRec) :
    (run1 (deleteEdgeBody e r) s).2.nn = s.nn ∧
    (run1 (deleteEdgeBody e r) s).2.ne = s.ne ∧
    (∀ x, edgeAt (run1 (deleteEdgeBody e r) s).2.kv x = if x = e then none else edgeAt s.kv x) ∧
    (∀ n, nodeEx (run1 (deleteEdgeBody e r) s).2.kv n = nodeEx s.kv n) ∧
    (∀ n, outL (run1 (deleteEdgeBody e r) s).2.kv n =
        if n = r.src ∨ (r.directed = false ∧ n = r.dst) then rmv (outL s.kv n) e else outL s.kv n) ∧
    (∀ n, inL (run1 (deleteEdgeBody e r) s).2.kv n =
        if n = r.dst ∨ (r.directed = false ∧ n = r.src) then rmv (inL s.kv n) e else inL s.kv n) ∧
    (∀ n, ((run1 (deleteEdgeBody e r) s).2.kv (.out n)).isSome = (s.kv (.out n)).isSome ∧
          ((run1 (deleteEdgeBody e r) s).2.kv (.inn n)).isSome = (s.kv (.inn n)).isSome) := by
  cases hd : r.directed with
  | true =>
    simp only [deleteEdgeBody, hd, run1, run1_rmFrom, if_true]
    refine ⟨trivial, trivial, ?_, ?_, ?_, ?_, ?_⟩
    · intro x; simp [edgeAt_rmKV_out, edgeAt_rmKV_inn, eq_comm]
    · intro n; simp [nodeEx_rmKV_out, nodeEx_rmKV_inn]
    · intro n; simp [outL_rmKV']
    · intro n; simp [inL_rmKV']
    · intro n; simp [upd, isSome_rmKV]
  | false =>
    simp only [deleteEdgeBody, hd, Bool.false_eq_true, ↓reduceIte, run1, run1_rmFrom]
    refine ⟨trivial, trivial, ?_, ?_, ?_, ?_, ?_⟩
    · intro x; simp [edgeAt_rmKV_out, edgeAt_rmKV_inn, eq_comm]
    · intro n; simp [nodeEx_rmKV_out, nodeEx_rmKV_inn]
    · intro n; simp [outL_rmKV']; grind [rmv_rmv]
    · intro n; simp [inL_rmKV']; grind [rmv_rmv]
    · intro n; simp [upd, isSome_rmKV]

theorem wf_deleteEdgeBody (s : St) (e : Nat) (r : EdgeRec) (h : WF s.kv) (hr : edgeAt s.kv e = some r) :
    WF (run1 (deleteEdgeBody e r) s).2.kv := by
  obtain ⟨_, _, hE, hN, hO, hI, _⟩ := deleteEdgeBody_spec s e r
  apply wf_remove_edge (e := e) h hE hN
  · intro n x; rw [hO]; split
    · exact mem_rmv
    · rename_i hc
      constructor
      · intro hx; refine ⟨hx, ?_⟩
        rintro rfl
        obtain ⟨r', hr', ht⟩ := h.out_sound n x hx
        rw [hr] at hr'; cases hr'; grind
      · exact fun hx => hx.1
  · intro n x; rw [hI]; split
    · exact mem_rmv
    · rename_i hc
      constructor
      · intro hx; refine ⟨hx, ?_⟩
        rintro rfl
        obtain ⟨r', hr', ht⟩ := h.in_sound n x hx
        rw [hr] at hr'; cases hr'; grind
      · exact fun hx => hx.1
  · intro n; rw [hO]; split
    · exact nodup_rmv (h.out_nodup _)
    · exact h.out_nodup _
  · intro n; rw [hI]; split
    · exact nodup_rmv (h.in_nodup _)
    · exact h.in_nodup _

theorem inv_deleteEdge (s : St) (e : Nat) (h : Inv s) : Inv (apply s (.deleteEdge e)).2 := by
  simp only [apply, Op.prog, deleteEdgeProg, run1]
  cases hr : edgeOf (s.kv (.edge e)) with
  | none => simp only [run1]; exact h
  | some r =>
    simp only
    obtain ⟨e1, e2, hE, hN, hO, hI, hK⟩ := deleteEdgeBody_spec s e r
    refine ⟨wf_deleteEdgeBody s e r h.wf hr, ?_, ?_, ?_⟩
    · intro n hn; rw [hN]; rw [e1] at hn; exact h.freshN n hn
    · intro x hx; rw [hE]; rw [e2] at hx; split
      · rfl
      · exact h.freshE x hx
    · intro n hn; rw [hN] at hn; rw [(hK n).1, (hK n).2]; exact h.keys n hn


theorem inv_updateNode (s : St) (n : Nat) (lab : Option Nat) (v : Nat) (h : Inv s) :
    Inv (apply s (.updateNode n lab v)).2 := by
  simp only [apply, Op.prog, updateNodeProg, updateNodeSecond, updateNodePut, run1]
  cases hv : s.kv (.node n) with
  | none => simp only [run1]; exact h
  | some val =>
    have hex : nodeEx s.kv n = true := by simp [nodeEx, hv]
    have key : ∀ val', Inv { s with kv := upd s.kv (.node n) (some val') } := by
      intro val'
      refine ⟨?_, ?_, ?_, ?_⟩
      · apply wf_same_shape h.wf
        · intro x r' hx; simp at hx; exact ⟨r', hx, rfl, rfl, rfl⟩
        · intro x r hx; exact ⟨r, by simp [hx], rfl, rfl, rfl⟩
        · intro m hm; simp; exact Or.inr hm
        · intro m; simp
        · intro m; simp
      · intro m hm; simp
        refine ⟨?_, h.freshN m hm⟩
        rintro rfl; have := h.freshN m hm; simp_all
      · intro e he; simp; exact h.freshE e he
      · intro m hm; simp at hm
        have : nodeEx s.kv m = true := by rcases hm with rfl | hm; exact hex; exact hm
        simpa [upd] using h.keys m this
    cases val with
    | node l v0 => simp only [hv, run1]; exact key _
    | edge r => simp only [hv, run1]; exact key _
    | list l => simp only [hv, run1]; exact key _

theorem inv_updateEdge (s : St) (e v : Nat) (h : Inv s) : Inv (apply s (.updateEdge e v)).2 := by
  simp only [apply, Op.prog, updateEdgeProg, updateEdgeSecond, run1]
  cases hv : s.kv (.edge e) with
  | none => simp only [edgeOf, run1]; exact h
  | some val =>
    cases val with
    | node l v0 => simp only [edgeOf, run1]; exact h
    | list l => simp only [edgeOf, run1]; exact h
    | edge r =>
      simp only [edgeOf, hv, updateEdgePut, run1]
      have hr : edgeAt s.kv e = some r := by simp [edgeAt, hv]
      refine ⟨?_, ?_, ?_, ?_⟩
      · apply wf_same_shape h.wf
        · intro x r' hx; simp at hx; split at hx
          · rename_i hh; cases hh; cases hx; exact ⟨r, hr, rfl, rfl, rfl⟩
          · exact ⟨r', hx, rfl, rfl, rfl⟩
        · intro x rx hx; simp; split
          · rename_i hh; cases hh; rw [hr] at hx; cases hx; exact ⟨_, rfl, rfl, rfl, rfl⟩
          · exact ⟨rx, hx, rfl, rfl, rfl⟩
        · intro m hm; simp; exact hm
        · intro m; simp
        · intro m; simp
      · intro m hm; simp; exact h.freshN m hm
      · intro x hx; simp; split
        · rename_i hh; have := h.freshE x hx; rw [hh, hr] at this; cases this
        · exact h.freshE x hx
      · intro m hm; simp at hm; simpa [upd] using h.keys m hm


/-! ### delete_node -/

def delNodeEdgeKV (id e : Nat) (r : EdgeRec) (m : KV) : KV :=
  let other := if r.src = id then r.dst else r.src
  let m1 := if r.src = id then rmKV m (.inn other) e else m
  let m2 := if r.dst = id then rmKV m1 (.out other) e else m1
  if (!r.directed && other != id) then rmKV (rmKV m2 (.out other) e) (.inn other) e else m2

theorem run1_delNodeEdge (id e : Nat) (r : EdgeRec) (c : Prog) (s : St) :
    run1 (delNodeEdge id e r c) s = run1 c { s with kv := delNodeEdgeKV id e r s.kv } := by
  unfold delNodeEdge delNodeEdgeKV
  by_cases h1 : r.src = id <;> by_cases h2 : r.dst = id <;>
    by_cases h3 : (!r.directed && (if r.src = id then r.dst else r.src) != id) = true <;>
    simp only [h1, h2, h3, ↓reduceIte, run1_rmFrom] <;> simp_all <;> simp only [run1_rmFrom]

def otherOf (id : Nat) (r : EdgeRec) : Nat := if r.src = id then r.dst else r.src

theorem delNodeEdgeKV_views (id e : Nat) (r : EdgeRec) (m : KV) :
    (∀ x, edgeAt (delNodeEdgeKV id e r m) x = edgeAt m x) ∧
    (∀ n, nodeEx (delNodeEdgeKV id e r m) n = nodeEx m n) ∧
    (∀ n, outL (delNodeEdgeKV id e r m) n =
      if n = otherOf id r ∧ (r.dst = id ∨ (r.directed = false ∧ otherOf id r ≠ id)) then rmv (outL m n) e else outL m n) ∧
    (∀ n, inL (delNodeEdgeKV id e r m) n =
      if n = otherOf id r ∧ (r.src = id ∨ (r.directed = false ∧ otherOf id r ≠ id)) then rmv (inL m n) e else inL m n) ∧
    (∀ k, (delNodeEdgeKV id e r m k).isSome = (m k).isSome) := by
  unfold delNodeEdgeKV otherOf
  by_cases h1 : r.src = id <;> by_cases h2 : r.dst = id <;> cases h3 : r.directed <;>
    by_cases h4 : (if r.src = id then r.dst else r.src) = id <;>
    simp [h1, h2, h3, h4, edgeAt_rmKV_out, edgeAt_rmKV_inn, nodeEx_rmKV_out, nodeEx_rmKV_inn, outL_rmKV', inL_rmKV', isSome_rmKV] <;>
    grind [rmv_rmv]

end Neumann.Graph
