import NeumannModel.Graph.Batch
import NeumannModel.Graph.Query
/-
  C05 — effect of every single operation on the graph (which nodes exist, which edge records exist),
  re-opening, and the read side: edges_of, pages, degree by type, scans.  Helper lemmas.
-/
set_option linter.unusedSimpArgs false
set_option linter.unusedVariables false
namespace Neumann.Graph

/-! ### re-opening -/

theorem maxWhere_le (p : Nat → Bool) : ∀ n, maxWhere p n ≤ n := by
  intro n
  induction n with
  | zero => simp [maxWhere]
  | succ n ih => simp only [maxWhere]; split <;> omega

theorem le_maxWhere (p : Nat → Bool) {i : Nat} (hp : p i = true) : ∀ n, i ≤ n → i ≤ maxWhere p n := by
  intro n
  induction n with
  | zero => intro h; simp [maxWhere]; omega
  | succ n ih =>
    intro h
    simp only [maxWhere]
    split
    · exact h
    · rename_i hn
      have : i ≠ n + 1 := by rintro rfl; exact hn hp
      exact ih (by omega)

theorem inv_reopen (s : St) (h : Inv s) : Inv (reopen s) := by
  refine ⟨h.wf, ?_, ?_, h.keys⟩
  · intro n hn
    simp only [reopen] at hn ⊢
    cases hx : nodeEx s.kv n with
    | false => rfl
    | true =>
      exfalso
      by_cases hle : n ≤ s.nn
      · have := le_maxWhere (fun n => (s.kv (.node n)).isSome) (i := n) hx s.nn hle
        omega
      · have := h.freshN n (by omega); rw [hx] at this; cases this
  · intro e he
    simp only [reopen] at he ⊢
    by_cases hle : e ≤ s.ne
    · cases hx : (s.kv (.edge e)).isSome with
      | false =>
        have : s.kv (.edge e) = none := by cases hh : s.kv (.edge e) <;> simp_all
        simp [edgeAt, this]
      | true =>
        exfalso
        have := le_maxWhere (fun e => (s.kv (.edge e)).isSome) (i := e) hx s.ne hle
        omega
    · exact h.freshE e (by omega)

theorem inv_applyCmds (cs : List Cmd) : ∀ s, Inv s → Inv (applyCmds s cs) := by
  induction cs with
  | nil => intro s h; exact h
  | cons c cs ih =>
    intro s h
    apply ih
    cases c with
    | op o => exact inv_apply s o h
    | reopen => exact inv_reopen s h

/-! ### effect of the single operations -/

theorem createEdge_ok_views (s : St) (a b : Nat) (d : Bool) (ty v : Nat)
    (ha : nodeEx s.kv a = true) (hb : nodeEx s.kv b = true) :
    (apply s (.createEdge a b d ty v)).1 = .id (s.ne + 1) ∧
    (apply s (.createEdge a b d ty v)).2.ne = s.ne + 1 ∧
    (apply s (.createEdge a b d ty v)).2.nn = s.nn ∧
    (∀ x, edgeAt (apply s (.createEdge a b d ty v)).2.kv x =
        if x = s.ne + 1 then some ⟨a, b, d, ty, v⟩ else edgeAt s.kv x) ∧
    (∀ n, nodeEx (apply s (.createEdge a b d ty v)).2.kv n = nodeEx s.kv n) := by
  rw [apply_createEdge_ok s a b d ty v ha hb]
  obtain ⟨_, _, hE, hN, _⟩ := createEdgeFrom_spec ⟨s.kv, 0, 0⟩ (s.ne + 1) a b d ty v
  exact ⟨rfl, rfl, rfl, hE, hN⟩

theorem createEdge_missing (s : St) (a b : Nat) (d : Bool) (ty v : Nat)
    (h : nodeEx s.kv a = false ∨ nodeEx s.kv b = false) :
    apply s (.createEdge a b d ty v) =
      (.nodeNotFound (if nodeEx s.kv a = false then a else b), s) := by
  simp only [apply, Op.prog, createEdgeProg, createEdgeCheckB, run1]
  cases ha : nodeEx s.kv a with
  | false => unfold nodeEx at ha; simp [ha, run1]
  | true =>
    rcases h with h | h
    · rw [ha] at h; cases h
    · unfold nodeEx at ha h; simp [ha, h, run1]

theorem deleteEdgeBody_res (s : St) (e : Nat) (r : EdgeRec) (hx : (s.kv (.edge e)).isSome = true) :
    (run1 (deleteEdgeBody e r) s).1 = .ok := by
  cases hd : r.directed with
  | true =>
    simp only [deleteEdgeBody, hd, run1, run1_rmFrom, if_true, isSome_rmKV, hx]
  | false =>
    simp only [deleteEdgeBody, hd, Bool.false_eq_true, ↓reduceIte, run1, run1_rmFrom, isSome_rmKV, hx]

theorem deleteEdge_ok_views (s : St) (e : Nat) (r : EdgeRec) (hr : edgeAt s.kv e = some r) :
    (apply s (.deleteEdge e)).1 = .ok ∧
    (apply s (.deleteEdge e)).2.ne = s.ne ∧ (apply s (.deleteEdge e)).2.nn = s.nn ∧
    (∀ x, edgeAt (apply s (.deleteEdge e)).2.kv x = if x = e then none else edgeAt s.kv x) ∧
    (∀ n, nodeEx (apply s (.deleteEdge e)).2.kv n = nodeEx s.kv n) := by
  have hx : (s.kv (.edge e)).isSome = true := by
    unfold edgeAt at hr; cases hh : s.kv (.edge e) <;> simp_all [edgeOf]
  have hr' : edgeOf (s.kv (.edge e)) = some r := hr
  simp only [apply, Op.prog, deleteEdgeProg, run1, hr']
  obtain ⟨e1, e2, hE, hN, _⟩ := deleteEdgeBody_spec s e r
  exact ⟨deleteEdgeBody_res s e r hx, e2, e1, hE, hN⟩

theorem deleteEdge_missing (s : St) (e : Nat) (hr : edgeAt s.kv e = none) :
    apply s (.deleteEdge e) = (.edgeNotFound e, s) := by
  have hr' : edgeOf (s.kv (.edge e)) = none := hr
  simp only [apply, Op.prog, deleteEdgeProg, run1, hr']

theorem createNode_views (s : St) (l v : Nat) (h : Inv s) :
    (apply s (.createNode l v)).1 = .id (s.nn + 1) ∧
    (∀ x, edgeAt (apply s (.createNode l v)).2.kv x = edgeAt s.kv x) ∧
    (∀ n, nodeEx (apply s (.createNode l v)).2.kv n = (nodeEx s.kv n || n == s.nn + 1)) ∧
    nodeEx s.kv (s.nn + 1) = false ∧
    outL (apply s (.createNode l v)).2.kv (s.nn + 1) = [] ∧
    inL (apply s (.createNode l v)).2.kv (s.nn + 1) = [] := by
  rw [apply_createNode]
  refine ⟨rfl, ?_, ?_, h.freshN _ (by omega), ?_, ?_⟩
  · intro x; simp [cnKV]
  · intro n; simp [cnKV]; by_cases hn : n = s.nn + 1 <;> simp [hn]
  · simp [cnKV]
  · simp [cnKV]

/-- operations that only rewrite one node record -/
def Op.nodeWrite : Op → Option Nat
  | .updateNode n _ _ | .addLabel n _ | .removeLabel n _ => some n
  | _ => none

theorem nodeWrite_shape (s : St) (op : Op) (n : Nat) (hop : op.nodeWrite = some n) :
    (apply s op).2 = s ∨
    (nodeEx s.kv n = true ∧ ∃ val, (apply s op).2 = { s with kv := upd s.kv (.node n) (some val) }) := by
  cases op with
  | updateNode n' lab v =>
    simp [Op.nodeWrite] at hop; subst hop
    simp only [apply, Op.prog, updateNodeProg, updateNodeSecond, updateNodePut, run1]
    cases hv : s.kv (.node n') with
    | none => left; simp [run1]
    | some val =>
      right
      refine ⟨by simp [nodeEx, hv], ?_⟩
      cases val <;> simp only [hv, run1] <;> exact ⟨_, rfl⟩
  | addLabel n' l =>
    simp [Op.nodeWrite] at hop; subst hop
    simp only [apply, Op.prog, addLabelProg, run1]
    cases hv : s.kv (.node n') with
    | none => left; simp [run1]
    | some val =>
      simp only
      split
      · left; simp [run1]
      · right
        refine ⟨by simp [nodeEx, hv], ?_⟩
        simp only [run1, labelPut, hv]; exact ⟨_, rfl⟩
  | removeLabel n' l =>
    simp [Op.nodeWrite] at hop; subst hop
    simp only [apply, Op.prog, removeLabelProg, run1]
    cases hv : s.kv (.node n') with
    | none => left; simp [run1]
    | some val =>
      simp only
      split
      · right
        refine ⟨by simp [nodeEx, hv], ?_⟩
        simp only [run1, labelPut, hv]; exact ⟨_, rfl⟩
      · left; simp [run1]
  | _ => simp [Op.nodeWrite] at hop

theorem nodeWrite_views (s : St) (op : Op) (n : Nat) (hop : op.nodeWrite = some n) :
    (∀ x, edgeAt (apply s op).2.kv x = edgeAt s.kv x) ∧
    (∀ k, nodeEx (apply s op).2.kv k = nodeEx s.kv k) ∧
    (∀ k, outL (apply s op).2.kv k = outL s.kv k) ∧ (∀ k, inL (apply s op).2.kv k = inL s.kv k) ∧
    (apply s op).2.nn = s.nn ∧ (apply s op).2.ne = s.ne := by
  rcases nodeWrite_shape s op n hop with h | ⟨hex, val, h⟩
  · rw [h]; exact ⟨fun _ => rfl, fun _ => rfl, fun _ => rfl, fun _ => rfl, rfl, rfl⟩
  · rw [h]
    refine ⟨fun x => by simp, ?_, fun k => by simp, fun k => by simp, rfl, rfl⟩
    intro k; simp; intro hk; subst hk; exact hex

theorem updateEdge_views (s : St) (e v : Nat) :
    (∀ x, edgeAt (apply s (.updateEdge e v)).2.kv x =
        if x = e then (edgeAt s.kv e).map (fun r => { r with ver := v }) else edgeAt s.kv x) ∧
    (∀ k, nodeEx (apply s (.updateEdge e v)).2.kv k = nodeEx s.kv k) ∧
    (∀ k, outL (apply s (.updateEdge e v)).2.kv k = outL s.kv k) ∧
    (∀ k, inL (apply s (.updateEdge e v)).2.kv k = inL s.kv k) := by
  simp only [apply, Op.prog, updateEdgeProg, updateEdgeSecond, run1]
  cases hv : s.kv (.edge e) with
  | none =>
    simp only [edgeOf, run1]
    refine ⟨fun x => ?_, fun _ => trivial, fun _ => trivial, fun _ => trivial⟩
    split
    · rename_i hx; subst hx; simp [edgeAt, hv, edgeOf]
    · rfl
  | some val =>
    cases val with
    | edge r =>
      simp only [edgeOf, hv, updateEdgePut, run1]
      refine ⟨fun x => ?_, fun k => by simp, fun k => by simp, fun k => by simp⟩
      simp only [edgeAt_upd]
      by_cases hx : x = e
      · subst hx; simp [edgeAt, hv, edgeOf]
      · have : Key.edge x ≠ Key.edge e := by intro hh; cases hh; exact hx rfl
        simp [this, hx]
    | node l v0 =>
      simp only [edgeOf, run1]
      refine ⟨fun x => ?_, fun _ => trivial, fun _ => trivial, fun _ => trivial⟩
      split
      · rename_i hx; subst hx; simp [edgeAt, hv, edgeOf]
      · rfl
    | list l =>
      simp only [edgeOf, run1]
      refine ⟨fun x => ?_, fun _ => trivial, fun _ => trivial, fun _ => trivial⟩
      split
      · rename_i hx; subst hx; simp [edgeAt, hv, edgeOf]
      · rfl

/-! ### edges_of -/

theorem mem_withRec {m : KV} {ids : List Nat} {e : Nat} {r : EdgeRec} :
    (e, r) ∈ withRec m ids ↔ e ∈ ids ∧ edgeAt m e = some r := by
  simp only [withRec, List.mem_filterMap]
  constructor
  · rintro ⟨x, hx, hm⟩
    cases hr : edgeAt m x with
    | none => simp [hr] at hm
    | some r' => simp [hr] at hm; obtain ⟨rfl, rfl⟩ := hm; exact ⟨hx, hr⟩
  · rintro ⟨he, hr⟩; exact ⟨e, he, by simp [hr]⟩

theorem withRec_fst_sublist (m : KV) (ids : List Nat) : ((withRec m ids).map Prod.fst).Sublist ids := by
  induction ids with
  | nil => simp [withRec]
  | cons x xs ih =>
    simp only [withRec, List.filterMap_cons]
    cases hr : edgeAt m x with
    | none => simp only [Option.map_none]; exact List.Sublist.cons _ ih
    | some r => simp only [Option.map_some, List.map_cons]; exact List.Sublist.cons_cons _ ih

/-- the stored record of `e`, a dummy when there is none -/
def recD (m : KV) (e : Nat) : EdgeRec := (edgeAt m e).getD ⟨0, 0, true, 0, 0⟩

theorem withRec_eq_map (m : KV) (ids : List Nat) (h : ∀ e ∈ ids, (edgeAt m e).isSome = true) :
    withRec m ids = ids.map fun e => (e, recD m e) := by
  induction ids with
  | nil => rfl
  | cons x xs ih =>
    have hx := h x (List.mem_cons_self ..)
    cases hr : edgeAt m x with
    | none => rw [hr] at hx; cases hx
    | some r =>
      simp only [withRec, List.filterMap_cons, hr, Option.map_some, List.map_cons, recD, Option.getD_some]
      congr 1
      exact ih (fun e he => h e (List.mem_cons_of_mem _ he))

theorem mem_pageOf {α : Type} {l : List α} {skip : Nat} {limit : Option Nat} {a : α}
    (h : a ∈ pageOf l skip limit) : a ∈ l := by
  unfold pageOf at h
  cases limit with
  | none => exact List.mem_of_mem_drop h
  | some k => exact List.mem_of_mem_drop (List.mem_of_mem_take h)

theorem map_pageOf {α β : Type} (f : α → β) (l : List α) (skip : Nat) (limit : Option Nat) :
    (pageOf l skip limit).map f = pageOf (l.map f) skip limit := by
  unfold pageOf
  cases limit with
  | none => simp [List.map_drop]
  | some k => simp [List.map_drop, List.map_take]

theorem mem_edgesOfIds {m : KV} {n : Nat} {dir : Dir} {e : Nat} :
    e ∈ edgesOfIds m n dir ↔
      ((dir = .outgoing ∨ dir = .both) ∧ e ∈ outL m n) ∨ ((dir = .incoming ∨ dir = .both) ∧ e ∈ inL m n) := by
  simp only [edgesOfIds, mem_sortDedup, List.mem_append]
  constructor
  · rintro (h | h)
    · split at h
      · rename_i hd; exact Or.inl ⟨hd, h⟩
      · cases h
    · split at h
      · rename_i hd; exact Or.inr ⟨hd, h⟩
      · cases h
  · rintro (⟨hd, h⟩ | ⟨hd, h⟩)
    · left; rw [if_pos hd]; exact h
    · right; rw [if_pos hd]; exact h

theorem edgesOfIds_have_records {m : KV} (h : WF m) {n : Nat} {dir : Dir} :
    ∀ e ∈ edgesOfIds m n dir, (edgeAt m e).isSome = true := by
  intro e he
  rcases mem_edgesOfIds.mp he with ⟨_, h1⟩ | ⟨_, h1⟩
  · obtain ⟨r, hr, _⟩ := h.out_sound n e h1; simp [hr]
  · obtain ⟨r, hr, _⟩ := h.in_sound n e h1; simp [hr]

/-! ### degree by type -/

def OutIncidentTy (m : KV) (n ty e : Nat) : Prop :=
  ∃ r, edgeAt m e = some r ∧ r.ty = ty ∧ (r.src = n ∨ (r.directed = false ∧ r.dst = n))
def InIncidentTy (m : KV) (n ty e : Nat) : Prop :=
  ∃ r, edgeAt m e = some r ∧ r.ty = ty ∧ (r.dst = n ∨ (r.directed = false ∧ r.src = n))

theorem countTy_eq {m : KV} {l lo : List Nat} {ty : Nat} (hl : l.Nodup) (hlo : lo.Nodup)
    (hm : ∀ e, e ∈ lo ↔ (e ∈ l ∧ ∃ r, edgeAt m e = some r ∧ r.ty = ty)) :
    countTy m l ty = lo.length := by
  unfold countTy
  apply length_eq_of_nodup_mem (List.Nodup.sublist List.filter_sublist hl) hlo
  intro e
  rw [hm, List.mem_filter]
  constructor
  · rintro ⟨h1, h2⟩
    refine ⟨h1, ?_⟩
    cases hr : edgeAt m e with
    | none => simp [hr] at h2
    | some r => simp [hr] at h2; exact ⟨r, rfl, h2⟩
  · rintro ⟨h1, r, hr, ht⟩
    exact ⟨h1, by simp [hr, ht]⟩

/-! ### scans -/

theorem mem_allEdges {s : St} (h : Inv s) {e : Nat} {r : EdgeRec} :
    (e, r) ∈ allEdges s ↔ edgeAt s.kv e = some r := by
  unfold allEdges
  rw [mem_withRec, List.mem_range]
  constructor
  · exact fun hh => hh.2
  · intro hr
    refine ⟨?_, hr⟩
    rcases Nat.lt_or_ge e (s.ne + 1) with hlt | hge
    · exact hlt
    · have := h.freshE e (by omega); rw [hr] at this; cases this

theorem mem_allNodeIds {s : St} (h : Inv s) {n : Nat} : n ∈ allNodeIds s ↔ nodeEx s.kv n = true := by
  unfold allNodeIds
  rw [List.mem_filter, List.mem_range]
  constructor
  · exact fun hh => hh.2
  · intro hn
    refine ⟨?_, hn⟩
    rcases Nat.lt_or_ge n (s.nn + 1) with hlt | hge
    · exact hlt
    · have := h.freshN n (by omega); rw [hn] at this; cases this

theorem range_pairwise_lt (n : Nat) : (List.range n).Pairwise (· < ·) := by
  induction n with
  | zero => simp
  | succ n ih =>
    rw [List.range_succ, List.pairwise_append]
    refine ⟨ih, by simp, ?_⟩
    intro a ha b hb
    simp at hb; subst hb; exact List.mem_range.mp ha

end Neumann.Graph
