import NeumannModel.Graph.Lemmas
/-
  C05 — `delete_node`: the per-edge clean-up loop (sequential and >=100-edge path) keeps the
  invariant "the store with node id's own lists masked by the processed edges is well-formed".
-/
set_option linter.unusedSimpArgs false
set_option linter.unusedVariables false
namespace Neumann.Graph

def delEdgeKV (id e : Nat) (m : KV) : KV :=
  match edgeAt m e with
  | some r => upd (delNodeEdgeKV id e r m) (.edge e) none
  | none => upd m (.edge e) none

theorem run1_delNodeLoop (id : Nat) (es : List Nat) (c : Prog) (s : St) :
    run1 (delNodeLoop id es c) s =
      run1 c { s with kv := es.foldl (fun m e => delEdgeKV id e m) s.kv } := by
  induction es generalizing s with
  | nil => rfl
  | cons e es ih =>
    simp only [delNodeLoop, run1, List.foldl_cons]
    have : edgeOf (s.kv (.edge e)) = edgeAt s.kv e := rfl
    cases h : edgeAt s.kv e with
    | none => simp only [this, h, run1, ih, delEdgeKV]
    | some r => simp only [this, h, run1, run1_delNodeEdge, ih, delEdgeKV]

def notIn (D : List Nat) (l : List Nat) : List Nat := l.filter (fun x => !D.contains x)
theorem mem_notIn {D l : List Nat} {x : Nat} : x ∈ notIn D l ↔ x ∈ l ∧ x ∉ D := by simp [notIn]
theorem nodup_notIn {D l : List Nat} (h : l.Nodup) : (notIn D l).Nodup := List.Nodup.sublist List.filter_sublist h

/-- the store in which node `id`'s own lists have already dropped the edges `D` -/
def mask (id : Nat) (D : List Nat) (m : KV) : KV :=
  upd (upd m (.out id) (some (.list (notIn D (outL m id))))) (.inn id) (some (.list (notIn D (inL m id))))

theorem mask_views (id : Nat) (D : List Nat) (m : KV) :
    (∀ x, edgeAt (mask id D m) x = edgeAt m x) ∧ (∀ n, nodeEx (mask id D m) n = nodeEx m n) ∧
    (∀ n, outL (mask id D m) n = if n = id then notIn D (outL m id) else outL m n) ∧
    (∀ n, inL (mask id D m) n = if n = id then notIn D (inL m id) else inL m n) := by
  unfold mask
  refine ⟨?_, ?_, ?_, ?_⟩ <;> intro n <;> simp

theorem delEdgeKV_views (id e : Nat) (m : KV) (r : EdgeRec) (hr : edgeAt m e = some r) :
    (∀ x, edgeAt (delEdgeKV id e m) x = if x = e then none else edgeAt m x) ∧
    (∀ n, nodeEx (delEdgeKV id e m) n = nodeEx m n) ∧
    (∀ n, outL (delEdgeKV id e m) n =
      if n = otherOf id r ∧ (r.dst = id ∨ (r.directed = false ∧ otherOf id r ≠ id)) then rmv (outL m n) e else outL m n) ∧
    (∀ n, inL (delEdgeKV id e m) n =
      if n = otherOf id r ∧ (r.src = id ∨ (r.directed = false ∧ otherOf id r ≠ id)) then rmv (inL m n) e else inL m n) ∧
    (∀ k, k ≠ .edge e → (delEdgeKV id e m k).isSome = (m k).isSome) := by
  obtain ⟨vE, vN, vO, vI, vK⟩ := delNodeEdgeKV_views id e r m
  unfold delEdgeKV; simp only [hr]
  refine ⟨?_, ?_, ?_, ?_, ?_⟩
  · intro x; simp [vE, eq_comm]
  · intro n; simp [vN]
  · intro n; simp [vO]
  · intro n; simp [vI]
  · intro k hk; simp only [upd]; rw [if_neg hk]; exact vK k

structure P (id : Nat) (D : List Nat) (m : KV) : Prop where
  wf : WF (mask id D m)
  gone : ∀ e ∈ D, edgeAt m e = none
  nd : (outL m id).Nodup ∧ (inL m id).Nodup

theorem P_record {id : Nat} {D : List Nat} {m : KV} {e : Nat} (hP : P id D m) (heD : e ∉ D)
    (hin : e ∈ outL m id ∨ e ∈ inL m id) :
    ∃ r, edgeAt m e = some r ∧ (r.src = id ∨ r.dst = id) := by
  obtain ⟨mE, mN, mO, mI⟩ := mask_views id D m
  rcases hin with h | h
  · obtain ⟨r, hr, ht⟩ := hP.wf.out_sound id e (by rw [mO]; simp [mem_notIn, h, heD])
    rw [mE] at hr; exact ⟨r, hr, by grind⟩
  · obtain ⟨r, hr, ht⟩ := hP.wf.in_sound id e (by rw [mI]; simp [mem_notIn, h, heD])
    rw [mE] at hr; exact ⟨r, hr, by grind⟩

theorem P_step {id : Nat} {D : List Nat} {m : KV} {e : Nat} (hP : P id D m) (heD : e ∉ D)
    (hin : e ∈ outL m id ∨ e ∈ inL m id) : P id (e :: D) (delEdgeKV id e m) := by
  obtain ⟨r, hr, hT⟩ := P_record hP heD hin
  obtain ⟨mE, mN, mO, mI⟩ := mask_views id D m
  obtain ⟨mE', mN', mO', mI'⟩ := mask_views id (e :: D) (delEdgeKV id e m)
  obtain ⟨dE, dN, dO, dI, dK⟩ := delEdgeKV_views id e m r hr
  have Fo : ∀ n, n ≠ id → e ∈ outL m n → (r.src = n ∨ (r.directed = false ∧ r.dst = n)) := by
    intro n hn hm
    obtain ⟨r', hr', ht⟩ := hP.wf.out_sound n e (by rw [mO]; simp [hn, hm])
    rw [mE, hr] at hr'; cases hr'; exact ht
  have Fi : ∀ n, n ≠ id → e ∈ inL m n → (r.dst = n ∨ (r.directed = false ∧ r.src = n)) := by
    intro n hn hm
    obtain ⟨r', hr', ht⟩ := hP.wf.in_sound n e (by rw [mI]; simp [hn, hm])
    rw [mE, hr] at hr'; cases hr'; exact ht
  have ndO : ∀ n, (outL m n).Nodup := by
    intro n; by_cases hn : n = id
    · subst hn; exact hP.nd.1
    · have := hP.wf.out_nodup n; rw [mO] at this; simpa [hn] using this
  have ndI : ∀ n, (inL m n).Nodup := by
    intro n; by_cases hn : n = id
    · subst hn; exact hP.nd.2
    · have := hP.wf.in_nodup n; rw [mI] at this; simpa [hn] using this
  have ndO' : ∀ n, (outL (delEdgeKV id e m) n).Nodup := by
    intro n; rw [dO]; split
    · exact nodup_rmv (ndO n)
    · exact ndO n
  have ndI' : ∀ n, (inL (delEdgeKV id e m) n).Nodup := by
    intro n; rw [dI]; split
    · exact nodup_rmv (ndI n)
    · exact ndI n
  refine ⟨?_, ?_, ⟨ndO' id, ndI' id⟩⟩
  · apply wf_remove_edge (e := e) hP.wf
    · intro x; rw [mE', dE, mE]
    · intro n; rw [mN', dN, mN]
    · intro n x; rw [mO', mO]
      by_cases hn : n = id
      · subst hn; simp only [if_true, mem_notIn, dO]
        split <;> simp [mem_rmv] <;> grind
      · simp only [hn, if_false, dO]
        split
        · exact mem_rmv
        · have := Fo n hn; unfold otherOf at *; grind
    · intro n x; rw [mI', mI]
      by_cases hn : n = id
      · subst hn; simp only [if_true, mem_notIn, dI]
        split <;> simp [mem_rmv] <;> grind
      · simp only [hn, if_false, dI]
        split
        · exact mem_rmv
        · have := Fi n hn; unfold otherOf at *; grind
    · intro n; rw [mO']; split
      · exact nodup_notIn (ndO' id)
      · exact ndO' n
    · intro n; rw [mI']; split
      · exact nodup_notIn (ndI' id)
      · exact ndI' n
  · intro x hx; rw [dE]; split
    · rfl
    · simp at hx; rcases hx with rfl | hx
      · contradiction
      · exact hP.gone x hx

theorem P_init {id : Nat} {m : KV} (h : WF m) : P id [] m := by
  obtain ⟨mE, mN, mO, mI⟩ := mask_views id [] m
  have e1 : ∀ l, notIn [] l = l := by intro l; simp [notIn]
  refine ⟨?_, by simp, ⟨h.out_nodup id, h.in_nodup id⟩⟩
  apply wf_same_shape h
  · intro x r' hx; rw [mE] at hx; exact ⟨r', hx, rfl, rfl, rfl⟩
  · intro x r hx; exact ⟨r, by rw [mE]; exact hx, rfl, rfl, rfl⟩
  · intro n hn; rw [mN]; exact hn
  · intro n; rw [mO]; split
    · rename_i hh; subst hh; exact e1 _
    · rfl
  · intro n; rw [mI]; split
    · rename_i hh; subst hh; exact e1 _
    · rfl

/-- the whole loop: every edge of `es` is processed; node existence and the existence of all
    non-edge keys are untouched -/
theorem P_loop {id : Nat} (es : List Nat) : ∀ (D : List Nat) (m : KV), P id D m → es.Nodup →
    (∀ x ∈ es, x ∉ D ∧ (x ∈ outL m id ∨ x ∈ inL m id)) →
    (∀ x, (x ∈ outL m id ∨ x ∈ inL m id) → x ∈ D ∨ x ∈ es) →
    let m' := es.foldl (fun m e => delEdgeKV id e m) m
    ∃ D', P id D' m' ∧ (∀ x, (x ∈ outL m' id ∨ x ∈ inL m' id) → x ∈ D') ∧
      (∀ n, nodeEx m' n = nodeEx m n) ∧
      (∀ x, edgeAt m' x = if x ∈ es then none else edgeAt m x) ∧
      (∀ n, (m' (.out n)).isSome = (m (.out n)).isSome ∧ (m' (.inn n)).isSome = (m (.inn n)).isSome) := by
  induction es with
  | nil =>
    intro D m hP _ _ hcov
    exact ⟨D, hP, fun x hx => by simpa using hcov x hx, fun _ => rfl, fun _ => by simp, fun _ => ⟨rfl, rfl⟩⟩
  | cons e es ih =>
    intro D m hP hnd hmem hcov
    have he := hmem e (by simp)
    obtain ⟨r, hr, hT⟩ := P_record hP he.1 he.2
    obtain ⟨dE, dN, dO, dI, dK⟩ := delEdgeKV_views id e m r hr
    have hstep := P_step hP he.1 he.2
    have hnd' := List.nodup_cons.mp hnd
    have keepO : ∀ x, x ≠ e → (x ∈ outL (delEdgeKV id e m) id ↔ x ∈ outL m id) := by
      intro x hx; rw [dO]; split <;> simp [mem_rmv, hx]
    have keepI : ∀ x, x ≠ e → (x ∈ inL (delEdgeKV id e m) id ↔ x ∈ inL m id) := by
      intro x hx; rw [dI]; split <;> simp [mem_rmv, hx]
    have subO : ∀ x, x ∈ outL (delEdgeKV id e m) id → x ∈ outL m id ∧ (x = e → False) ∨ x ∈ outL m id := by
      intro x hx; rw [dO] at hx; split at hx
      · exact Or.inr (mem_rmv.mp hx).1
      · exact Or.inr hx
    obtain ⟨D', hP', hcov', hN', hE', hK'⟩ := ih (e :: D) (delEdgeKV id e m) hstep hnd'.2
      (by
        intro x hx
        have hxe : x ≠ e := by rintro rfl; exact hnd'.1 hx
        have := hmem x (by simp [hx])
        refine ⟨by simp [hxe, this.1], ?_⟩
        rw [keepO x hxe, keepI x hxe]; exact this.2)
      (by
        intro x hx
        by_cases hxe : x = e
        · simp [hxe]
        · rw [keepO x hxe, keepI x hxe] at hx
          rcases hcov x hx with h | h
          · exact Or.inl (by simp [h])
          · simp at h; rcases h with h | h
            · exact absurd h hxe
            · exact Or.inr h)
    refine ⟨D', hP', hcov', ?_, ?_, ?_⟩
    · intro n; simp only [List.foldl_cons]; rw [hN', dN]
    · intro x; simp only [List.foldl_cons]
      rw [hE' x, dE]; by_cases h1 : x = e <;> by_cases h2 : x ∈ es <;> simp [h1, h2]
    · intro n; simp only [List.foldl_cons]
      rw [(hK' n).1, (hK' n).2, dK _ (by simp), dK _ (by simp)]; exact ⟨rfl, rfl⟩

theorem run1_delNodeParLoop {id : Nat} (es : List Nat) (c : Bool → Prog) :
    ∀ (D : List Nat) (s : St), P id D s.kv → es.Nodup →
    (∀ x ∈ es, x ∉ D ∧ (x ∈ outL s.kv id ∨ x ∈ inL s.kv id)) →
    run1 (delNodeParLoop id es false c) s =
      run1 (c false) { s with kv := es.foldl (fun m e => delEdgeKV id e m) s.kv } := by
  induction es with
  | nil => intro D s _ _ _; rfl
  | cons e es ih =>
    intro D s hP hnd hmem
    have he := hmem e (by simp)
    obtain ⟨r, hr, hT⟩ := P_record hP he.1 he.2
    obtain ⟨dE, dN, dO, dI, dK⟩ := delEdgeKV_views id e s.kv r hr
    obtain ⟨vE, vN, vO, vI, vK⟩ := delNodeEdgeKV_views id e r s.kv
    have hstep := P_step hP he.1 he.2
    have hnd' := List.nodup_cons.mp hnd
    have hex : (delNodeEdgeKV id e r s.kv (.edge e)).isSome = true := by
      rw [vK]; unfold edgeAt edgeOf at hr; split at hr <;> simp_all
    have hk : delEdgeKV id e s.kv = upd (delNodeEdgeKV id e r s.kv) (.edge e) none := by
      unfold delEdgeKV; simp only [hr]
    have hr' : edgeOf (s.kv (.edge e)) = some r := hr
    simp only [delNodeParLoop, run1, hr', run1_delNodeEdge, hex, Bool.not_true, Bool.or_false, List.foldl_cons]
    rw [← hk]
    have keepO : ∀ x, x ≠ e → (x ∈ outL (delEdgeKV id e s.kv) id ↔ x ∈ outL s.kv id) := by
      intro x hx; rw [dO]; split <;> simp [mem_rmv, hx]
    have keepI : ∀ x, x ≠ e → (x ∈ inL (delEdgeKV id e s.kv) id ↔ x ∈ inL s.kv id) := by
      intro x hx; rw [dI]; split <;> simp [mem_rmv, hx]
    exact ih (e :: D) { s with kv := delEdgeKV id e s.kv } hstep hnd'.2 (by
        intro x hx
        have hxe : x ≠ e := by rintro rfl; exact hnd'.1 hx
        have := hmem x (by simp [hx])
        refine ⟨by simp [hxe, this.1], ?_⟩
        show x ∈ outL (delEdgeKV id e s.kv) id ∨ x ∈ inL (delEdgeKV id e s.kv) id
        rw [keepO x hxe, keepI x hxe]; exact this.2)

theorem mem_dedupNat {l : List Nat} {x : Nat} : x ∈ dedupNat l ↔ x ∈ l := by
  induction l with
  | nil => simp [dedupNat]
  | cons y ys ih =>
    simp only [dedupNat, List.mem_cons, List.mem_filter, ih]
    by_cases h : x = y <;> simp [h]

theorem nodup_dedupNat (l : List Nat) : (dedupNat l).Nodup := by
  induction l with
  | nil => simp [dedupNat]
  | cons y ys ih =>
    simp only [dedupNat, List.nodup_cons, List.mem_filter]
    exact ⟨by simp, List.Nodup.sublist List.filter_sublist ih⟩

theorem mem_orderWith {hint all : List Nat} {x : Nat} : x ∈ orderWith hint all ↔ x ∈ all := by
  simp only [orderWith, List.mem_append, mem_dedupNat, List.mem_filter, List.contains_iff_mem]
  by_cases h : x ∈ hint <;> simp [h]

theorem nodup_orderWith {hint all : List Nat} (h : all.Nodup) : (orderWith hint all).Nodup := by
  simp only [orderWith]
  rw [List.nodup_append]
  refine ⟨nodup_dedupNat _, List.Nodup.sublist List.filter_sublist h, ?_⟩
  intro a ha b hb hab
  subst hab
  simp only [mem_dedupNat, List.mem_filter, List.contains_iff_mem] at ha hb
  simp [ha.1] at hb

theorem notIn_eq_nil {D l : List Nat} (h : ∀ x ∈ l, x ∈ D) : notIn D l = [] := by
  simp only [notIn, List.filter_eq_nil_iff]
  intro x hx; simp [h x hx]

theorem deleteNode_main (thr : Nat) (s : St) (id : Nat) (hint : List Nat) (h : Inv s)
    (hex : nodeEx s.kv id = true) :
    (run1 (deleteNodeProgT thr id hint) s).1 = .ok ∧
    Inv (run1 (deleteNodeProgT thr id hint) s).2 ∧
    (∀ n, nodeEx (run1 (deleteNodeProgT thr id hint) s).2.kv n = (nodeEx s.kv n && decide (n ≠ id))) ∧
    (∀ x, edgeAt (run1 (deleteNodeProgT thr id hint) s).2.kv x =
      if x ∈ outL s.kv id ∨ x ∈ inL s.kv id then none else edgeAt s.kv x) := by
  have hall : (dedupNat (outL s.kv id ++ inL s.kv id)).Nodup := nodup_dedupNat _
  have hord := nodup_orderWith (hint := hint) hall
  have hmemO : ∀ x, x ∈ orderWith hint (dedupNat (outL s.kv id ++ inL s.kv id)) ↔
      (x ∈ outL s.kv id ∨ x ∈ inL s.kv id) := by
    intro x; rw [mem_orderWith, mem_dedupNat, List.mem_append]
  obtain ⟨D', hP', hcov', hN', hE', hK'⟩ := P_loop (id := id) _ [] s.kv (P_init h.wf) hord
    (fun x hx => ⟨by simp, (hmemO x).mp hx⟩) (fun x hx => Or.inr ((hmemO x).mpr hx))
  -- reduce the program to the tail run on the folded store
  have hrun : run1 (deleteNodeProgT thr id hint) s =
      run1 (delNodeTail id) { s with kv :=
        (orderWith hint (dedupNat (outL s.kv id ++ inL s.kv id))).foldl (fun m e => delEdgeKV id e m) s.kv } := by
    have hv : ∃ val, s.kv (.node id) = some val := by
      unfold nodeEx at hex; cases hh : s.kv (.node id) <;> simp_all
    obtain ⟨val, hv⟩ := hv
    have e1 : listOf (s.kv (.out id)) = outL s.kv id := rfl
    have e2 : listOf (s.kv (.inn id)) = inL s.kv id := rfl
    simp only [deleteNodeProgT, run1, hv, e1, e2]
    split
    · rw [run1_delNodeParLoop _ _ [] s (P_init h.wf) hord (fun x hx => ⟨by simp, (hmemO x).mp hx⟩)]
      simp
    · rw [run1_delNodeLoop]
  rw [hrun]
  generalize hm' : (orderWith hint (dedupNat (outL s.kv id ++ inL s.kv id))).foldl
    (fun m e => delEdgeKV id e m) s.kv = m' at *
  have k1 : (m' (.node id)).isSome = true := by have := hN' id; unfold nodeEx at this hex; rw [this, hex]
  have k2 : (m' (.out id)).isSome = true := by rw [(hK' id).1]; exact (h.keys id hex).1
  have k3 : (m' (.inn id)).isSome = true := by rw [(hK' id).2]; exact (h.keys id hex).2
  have k2' : (upd m' (.node id) none (.out id)).isSome = true := by simpa [upd] using k2
  have k3' : (upd (upd m' (.node id) none) (.out id) none (.inn id)).isSome = true := by simpa [upd] using k3
  simp only [delNodeTail, run1, k1, k2', k3', Bool.not_true, Bool.false_eq_true, ↓reduceIte, if_true]
  obtain ⟨mE, mN, mO, mI⟩ := mask_views id D' m'
  have hwf : WF (upd (upd (upd m' (.node id) none) (.out id) none) (.inn id) none) := by
    apply wf_remove_isolated_node (id := id) hP'.wf
    · rw [mO]; simp; exact notIn_eq_nil (fun x hx => hcov' x (Or.inl hx))
    · rw [mI]; simp; exact notIn_eq_nil (fun x hx => hcov' x (Or.inr hx))
    · intro x; simp [mE]
    · intro n; simp [mN]; by_cases hn : n = id <;> simp [hn]
    · intro n; simp [mO]; by_cases hn : n = id
      · subst hn; simp; exact notIn_eq_nil (fun x hx => hcov' x (Or.inl hx))
      · simp [hn]
    · intro n; simp [mI]; by_cases hn : n = id
      · subst hn; simp; exact notIn_eq_nil (fun x hx => hcov' x (Or.inr hx))
      · simp [hn]
  have hNf : ∀ n, nodeEx (upd (upd (upd m' (.node id) none) (.out id) none) (.inn id) none) n =
      (nodeEx s.kv n && decide (n ≠ id)) := by
    intro n; simp [hN']; by_cases hn : n = id <;> simp [hn]
  have hEf : ∀ x, edgeAt (upd (upd (upd m' (.node id) none) (.out id) none) (.inn id) none) x =
      if x ∈ outL s.kv id ∨ x ∈ inL s.kv id then none else edgeAt s.kv x := by
    intro x; simp [hE', hmemO]
  refine ⟨trivial, ⟨hwf, ?_, ?_, ?_⟩, hNf, hEf⟩
  · intro n hn; rw [hNf]; simp [h.freshN n hn]
  · intro x hx; rw [hEf]; split
    · rfl
    · exact h.freshE x hx
  · intro n hn; rw [hNf] at hn; simp at hn
    have hk := h.keys n hn.1
    have := hK' n
    simp [upd, hn.2, this, hk]

theorem deleteNode_missing (thr : Nat) (s : St) (id : Nat) (hint : List Nat) (hex : nodeEx s.kv id = false) :
    run1 (deleteNodeProgT thr id hint) s = (.nodeNotFound id, s) := by
  have hv : s.kv (.node id) = none := by
    unfold nodeEx at hex; cases hh : s.kv (.node id) <;> simp_all
  simp only [deleteNodeProgT, run1, hv]

theorem inv_deleteNode (s : St) (id : Nat) (hint : List Nat) (h : Inv s) :
    Inv (apply s (.deleteNode id hint)).2 := by
  simp only [apply, Op.prog, deleteNodeProg]
  cases hex : nodeEx s.kv id with
  | false => rw [deleteNode_missing _ _ _ _ hex]; exact h
  | true => exact (deleteNode_main _ s id hint h hex).2.1

end Neumann.Graph
