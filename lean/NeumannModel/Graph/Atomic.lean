import NeumannModel.Graph.Lemmas
/-
  C05 — the adjacency-list read-modify-write is atomic under the list lock: the invariant `J`
  of the locked interleaving semantics (`runThreads Op.prog`) for threads that run `create_node`,
  `create_edge`, `delete_edge`, `update_node`, `add_label`, `remove_label` and `update_edge`
  operations (delete / update only of edges that existed before the concurrent phase).

  Every thread is in a phase `Ph` (where it is inside its current operation); `Ph.prog` is its
  program at that point.  `J` says: the store is well-formed EXCEPT for what the operations in
  flight still owe (`Exc`): an edge being created may miss from the lists its creator has not
  written yet, an edge being deleted may miss from any list; a list never mentions an edge without
  record; a thread between the `get` and the `put` of a list holds its lock and the list it read is
  still the stored one.

  `create_node` (since /repo e23bf6c3) writes the two empty adjacency lists of its fresh id BEFORE
  the node record.  While it does so the node is invisible (`nodeEx = false`, clause `Local` of the
  phases `cnP1/cnP2/cnP3`; kept by the other threads because node ids are handed out once, `J.uniqN`,
  and every other node write re-writes a node it has seen, `Local` of `unP`); every edge record has
  both endpoints visible (`J.e1`) and nobody deletes nodes, so the lists of an invisible node are
  empty (`J.lists_of_invisible_node`) and writing the empty lists changes no view.  Hence the arguments
  of `create_edge` are arbitrary also when other threads create nodes.
-/
set_option linter.unusedSimpArgs false
set_option linter.unusedVariables false
namespace Neumann.Graph

/-! ### lists by key -/

def Key.isList : Key → Bool
  | .out _ | .inn _ => true
  | _ => false

/-- the adjacency list stored under a list key -/
def L (m : KV) : Key → List Nat
  | .out n => outL m n
  | .inn n => inL m n
  | _ => []

/-- the list keys that must mention an edge with record `r`, in the order `create_edge` writes
    them and `delete_edge` cleans them -/
def req (r : EdgeRec) : List Key :=
  [.out r.src, .inn r.dst] ++ (if r.directed then [] else [.out r.dst, .inn r.src])

theorem req_isList {r : EdgeRec} {K : Key} (h : K ∈ req r) : K.isList = true := by
  unfold req at h
  cases hd : r.directed <;> simp [hd] at h <;> grind [Key.isList]

theorem L_of_isList {m : KV} {K : Key} (h : K.isList = true) : L m K = listOf (m K) := by
  cases K <;> simp [Key.isList] at h <;> rfl

@[simp] theorem L_upd_edge (m : KV) (x : Nat) (v : Option Val) (K : Key) : L (upd m (.edge x) v) K = L m K := by
  cases K <;> simp [L]

@[simp] theorem L_upd_node (m : KV) (n : Nat) (v : Option Val) (K : Key) : L (upd m (.node n) v) K = L m K := by
  cases K <;> simp [L]

theorem L_upd_list (m : KV) (k : Key) (l : List Nat) (K : Key) (hk : k.isList = true) :
    L (upd m k (some (.list l))) K = if K = k then l else L m K := by
  cases K <;> cases k <;> simp [L, Key.isList] at hk ⊢ <;> (split <;> simp_all)

theorem nodeEx_upd_list (m : KV) (k : Key) (v : Option Val) (n : Nat) (hk : k.isList = true) :
    nodeEx (upd m k v) n = nodeEx m n := by
  cases k <;> simp [Key.isList] at hk <;> simp

theorem edgeAt_upd_list (m : KV) (k : Key) (v : Option Val) (x : Nat) (hk : k.isList = true) :
    edgeAt (upd m k v) x = edgeAt m x := by
  cases k <;> simp [Key.isList] at hk <;> simp

/-! ### programs of the phases -/

inductive Stage where
  | acq | get | put (l : List Nat) | rel

def addSeq (x : Nat) : List Key → Prog → Prog
  | [], c => c
  | k :: ks, c => addTo k x (addSeq x ks c)

def rmSeq (e : Nat) : List Key → Prog → Prog
  | [], c => c
  | k :: ks, c => rmFrom k e (rmSeq e ks c)

/-- inside `add_edge_to_list(k, x)`; `c` is what follows the release -/
def addAt (x : Nat) (k : Key) (c : Prog) : Stage → Prog
  | .acq => addTo k x c
  | .get => .get k fun v => .put k (.list (if x ∈ listOf v then listOf v else listOf v ++ [x])) (.rel k c)
  | .put l => .put k (.list (ins l x)) (.rel k c)
  | .rel => .rel k c

/-- inside `remove_edge_from_list(k, e)` -/
def rmAt (e : Nat) (k : Key) (c : Prog) : Stage → Prog
  | .acq => rmFrom k e c
  | .get => .get k fun v =>
      match v with
      | none => .rel k c
      | some val => .put k (.list ((listOfVal val).filter (fun x => x != e))) (.rel k c)
  | .put l => .put k (.list (rmv l e)) (.rel k c)
  | .rel => .rel k c

def delTail (e : Nat) : Prog := .del (.edge e) fun ok => .done (if ok then .ok else .storage)

theorem createEdgeFrom_eq (x a b : Nat) (d : Bool) (ty v : Nat) :
    createEdgeFrom x a b d ty v =
      .put (.edge x) (.edge ⟨a, b, d, ty, v⟩) (addSeq x (req ⟨a, b, d, ty, v⟩) (.done (.id x))) := by
  cases d <;> rfl

theorem deleteEdgeBody_eq (e : Nat) (r : EdgeRec) :
    deleteEdgeBody e r = rmSeq e (req r) (delTail e) := by
  unfold deleteEdgeBody req
  cases hd : r.directed <;> simp [hd, rmSeq, delTail]

/-- where a thread is inside its current operation -/
inductive Ph where
  | fin (res : Res)
  | ceA (a b : Nat) (d : Bool) (ty v : Nat)
  | ceB (a b : Nat) (d : Bool) (ty v : Nat)
  | ceAl (a b : Nat) (d : Bool) (ty v : Nat)
  | pre (x a b : Nat) (d : Bool) (ty v : Nat)
  | add (x : Nat) (r : EdgeRec) (k : Key) (ks : List Key) (st : Stage)
  | deA (e : Nat)
  | rm (e : Nat) (r : EdgeRec) (k : Key) (ks : List Key) (st : Stage)
  | drec (e : Nat) (r : EdgeRec)
  | cnA (l v : Nat)
  | cnP1 (id l v : Nat)
  | cnP2 (id l v : Nat)
  | cnP3 (id l v : Nat)
  | alA (n l : Nat)
  | rlA (n l : Nat)
  | lbB (n : Nat) (labs : List Nat)
  | unA (n : Nat) (lab : Option Nat) (v : Nat)
  | unB (n : Nat) (lab : Option Nat) (v : Nat)
  | unP (n : Nat) (val : Val)
  | ueA (e v : Nat)
  | ueB (e v : Nat)
  | ueP (e : Nat) (r : EdgeRec) (v : Nat)
  | ueO (e : Nat) (other : Val)

def Ph.prog : Ph → Prog
  | .fin res => .done res
  | .ceA a b d ty v => createEdgeProg a b d ty v
  | .ceB a b d ty v => createEdgeCheckB a b d ty v
  | .ceAl a b d ty v => createEdgeAlloc a b d ty v
  | .pre x a b d ty v => createEdgeFrom x a b d ty v
  | .add x _ k ks st => addAt x k (addSeq x ks (.done (.id x))) st
  | .deA e => deleteEdgeProg e
  | .rm e _ k ks st => rmAt e k (rmSeq e ks (delTail e)) st
  | .drec e _ => delTail e
  | .cnA l v => createNodeProg l v
  | .cnP1 id l v => createNodeFrom id l v
  | .cnP2 id l v => .put (.inn id) (.list []) (.put (.node id) (.node [l] v) (.done (.id id)))
  | .cnP3 id l v => .put (.node id) (.node [l] v) (.done (.id id))
  | .alA n l => addLabelProg n l
  | .rlA n l => removeLabelProg n l
  | .lbB n labs => .get (.node n) (labelPut n labs)
  | .unA n lab v => updateNodeProg n lab v
  | .unB n lab v => updateNodeSecond n lab v
  | .unP n val => .put (.node n) val (.done .ok)
  | .ueA e v => updateEdgeProg e v
  | .ueB e v => updateEdgeSecond e v
  | .ueP e r v => .put (.edge e) (.edge { r with ver := v }) (.done .ok)
  | .ueO e other => .put (.edge e) other (.done .ok)

def Stage.holding : Stage → Bool
  | .acq => false
  | _ => true

/-- keys of the current sequence not yet written -/
def pend (k : Key) (ks : List Key) : Stage → List Key
  | .rel => ks
  | _ => k :: ks

def Ph.holds : Ph → Option Key
  | .add _ _ k _ st | .rm _ _ k _ st => if st.holding then some k else none
  | _ => none

def Ph.creates : Ph → Option Nat
  | .pre x .. | .add x .. => some x
  | _ => none

/-- the node id a `create_node` in flight has been handed and has not made visible yet -/
def Ph.makes : Ph → Option Nat
  | .cnP1 id .. | .cnP2 id .. | .cnP3 id .. => some id
  | _ => none

/-- what the operation in flight still owes about edge `x` and list `K` -/
def Exc (ph : Ph) (x : Nat) (K : Key) : Prop :=
  match ph with
  | .add x' _ k ks st => x' = x ∧ K ∈ pend k ks st
  | .rm e .. => e = x
  | .drec e _ => e = x
  | _ => False

def sameShape (a b : EdgeRec) : Prop := a.src = b.src ∧ a.dst = b.dst ∧ a.directed = b.directed

theorem req_shape {a b : EdgeRec} (h : sameShape a b) : req a = req b := by
  unfold req; rw [h.1, h.2.1, h.2.2]

def stageOK (m : KV) (held : List Key) (k : Key) : Stage → Prop
  | .acq => True
  | .put l => k ∈ held ∧ l = L m k
  | _ => k ∈ held

/-- the clause of `J` about one thread -/
def Local (ne0 : Nat) (D : Nat → Prop) (m : KV) (ne : Nat) (held : List Key) : Ph → Prop
  | .fin _ => True
  | .ceA .. => True
  | .ceB a .. => nodeEx m a = true
  | .ceAl a b .. => nodeEx m a = true ∧ nodeEx m b = true
  | .pre x a b .. => edgeAt m x = none ∧ ne0 < x ∧ x ≤ ne ∧ nodeEx m a = true ∧ nodeEx m b = true
  | .cnA .. => True
  | .cnP1 id .. => nodeEx m id = false
  | .cnP2 id .. => nodeEx m id = false
  | .cnP3 id .. => nodeEx m id = false
  | .add x r k ks st => edgeAt m x = some r ∧ ne0 < x ∧ x ≤ ne ∧ (∀ K ∈ k :: ks, K ∈ req r) ∧ stageOK m held k st
  | .deA e => e ≤ ne0 ∧ D e
  | .rm e r k ks st => e ≤ ne0 ∧ D e ∧ (∀ r', edgeAt m e = some r' → r' = r) ∧ (∀ K ∈ k :: ks, K ∈ req r) ∧
      (∀ K ∈ req r, K ∉ pend k ks st → e ∉ L m K) ∧ stageOK m held k st
  | .drec e r => e ≤ ne0 ∧ D e ∧ (∀ r', edgeAt m e = some r' → r' = r) ∧ (∀ K ∈ req r, e ∉ L m K)
  | .alA .. => True
  | .rlA .. => True
  | .lbB .. => True
  | .unA .. => True
  | .unB .. => True
  | .unP n _ => nodeEx m n = true
  | .ueA e _ => e ≤ ne0 ∧ ¬ D e
  | .ueB e _ => e ≤ ne0 ∧ ¬ D e
  | .ueP e r _ => e ≤ ne0 ∧ ¬ D e ∧ ∃ r', edgeAt m e = some r' ∧ sameShape r' r
  | .ueO e other => e ≤ ne0 ∧ edgeOf (some other) = none ∧ edgeAt m e = none

structure J (ne0 : Nat) (D : Nat → Prop) (phs : List Ph) (s : St) (held : List Key) : Prop where
  ne_ge : ne0 ≤ s.ne
  fresh : ∀ x, s.ne < x → edgeAt s.kv x = none
  freshN : ∀ n, s.nn < n → nodeEx s.kv n = false
  e1 : ∀ x r, edgeAt s.kv x = some r → nodeEx s.kv r.src = true ∧ nodeEx s.kv r.dst = true ∧
        ∀ K ∈ req r, x ∈ L s.kv K ∨ ∃ (j : Nat) (ph : Ph), phs[j]? = some ph ∧ Exc ph x K
  e2 : ∀ K x, x ∈ L s.kv K → ∃ r, edgeAt s.kv x = some r ∧ K ∈ req r
  e3 : ∀ K, (L s.kv K).Nodup
  loc : ∀ (j : Nat) (ph : Ph), phs[j]? = some ph → Local ne0 D s.kv s.ne held ph
  excl : ∀ (i j : Nat) (ph ph' : Ph), i ≠ j → phs[i]? = some ph → phs[j]? = some ph' →
        ∀ k, ph.holds = some k → ph'.holds ≠ some k
  uniq : ∀ (i j : Nat) (ph ph' : Ph), i ≠ j → phs[i]? = some ph → phs[j]? = some ph' →
        ∀ x, ph.creates = some x → ph'.creates ≠ some x
  mkle : ∀ (j : Nat) (ph : Ph) (id : Nat), phs[j]? = some ph → ph.makes = some id → id ≤ s.nn
  uniqN : ∀ (i j : Nat) (ph ph' : Ph), i ≠ j → phs[i]? = some ph → phs[j]? = some ph' →
        ∀ x, ph.makes = some x → ph'.makes ≠ some x

/-! ### what a step of one thread may change for the others -/

/-- edge ids whose record, once gone, must stay gone for this thread -/
def Ph.deletes : Ph → Option Nat
  | .rm e .. | .drec e _ | .ueO e _ => some e
  | _ => none

/-- edge id whose record this thread is about to overwrite -/
def Ph.updates : Ph → Option Nat
  | .ueP e .. => some e
  | _ => none

structure Frame (ph : Ph) (m : KV) (ne : Nat) (held : List Key) (m' : KV) (ne' : Nat) (held' : List Key) : Prop where
  ne_le : ne ≤ ne'
  node : ∀ n, nodeEx m n = true → nodeEx m' n = true
  held : ∀ k, ph.holds = some k → k ∈ held → k ∈ held'
  lst : ∀ k, ph.holds = some k → L m' k = L m k
  cre : ∀ x, ph.creates = some x → edgeAt m' x = edgeAt m x
  del : ∀ e, ph.deletes = some e →
    (∀ r, edgeAt m' e = some r → edgeAt m e = some r) ∧ (∀ K, e ∉ L m K → e ∉ L m' K)
  upd : ∀ e, ph.updates = some e → ∀ r, edgeAt m e = some r → ∃ r', edgeAt m' e = some r' ∧ sameShape r' r
  hid : ∀ id, ph.makes = some id → nodeEx m id = false → nodeEx m' id = false

theorem stageOK_frame {m m' : KV} {held held' : List Key} {k : Key} {st : Stage}
    (h : stageOK m held k st) (hh : st.holding = true → k ∈ held → k ∈ held')
    (hl : st.holding = true → L m' k = L m k) : stageOK m' held' k st := by
  cases st with
  | acq => trivial
  | get => exact hh rfl h
  | rel => exact hh rfl h
  | put l => exact ⟨hh rfl h.1, by rw [hl rfl]; exact h.2⟩

theorem Local.frame {ne0 : Nat} {D : Nat → Prop} {m m' : KV} {ne ne' : Nat} {held held' : List Key} {ph : Ph}
    (h : Local ne0 D m ne held ph) (f : Frame ph m ne held m' ne' held') : Local ne0 D m' ne' held' ph := by
  cases ph with
  | fin res => trivial
  | ceA a b d ty v => trivial
  | ceB a b d ty v => exact f.node _ h
  | ceAl a b d ty v => exact ⟨f.node _ h.1, f.node _ h.2⟩
  | pre x a b d ty v =>
    simp only [Local] at h ⊢
    rw [f.cre x rfl]
    exact ⟨h.1, h.2.1, Nat.le_trans h.2.2.1 f.ne_le, f.node _ h.2.2.2.1, f.node _ h.2.2.2.2⟩
  | cnA l v => trivial
  | cnP1 id l v => exact f.hid id rfl h
  | cnP2 id l v => exact f.hid id rfl h
  | cnP3 id l v => exact f.hid id rfl h
  | add x r k ks st =>
    simp only [Local] at h ⊢
    obtain ⟨h1, h2, h3, h4, h5⟩ := h
    refine ⟨by rw [f.cre x rfl]; exact h1, h2, Nat.le_trans h3 f.ne_le, h4, ?_⟩
    exact stageOK_frame h5 (fun hs => f.held k (by simp [Ph.holds, hs])) (fun hs => f.lst k (by simp [Ph.holds, hs]))
  | deA e => exact h
  | rm e r k ks st =>
    simp only [Local] at h ⊢
    obtain ⟨h1, hD, h2, h3, h4, h5⟩ := h
    obtain ⟨d1, d2⟩ := f.del e rfl
    refine ⟨h1, hD, fun r' hr' => h2 r' (d1 r' hr'), h3, fun K hK hp => d2 K (h4 K hK hp), ?_⟩
    exact stageOK_frame h5 (fun hs => f.held k (by simp [Ph.holds, hs])) (fun hs => f.lst k (by simp [Ph.holds, hs]))
  | drec e r =>
    simp only [Local] at h ⊢
    obtain ⟨h1, hD, h2, h3⟩ := h
    obtain ⟨d1, d2⟩ := f.del e rfl
    exact ⟨h1, hD, fun r' hr' => h2 r' (d1 r' hr'), fun K hK => d2 K (h3 K hK)⟩
  | alA n l => trivial
  | rlA n l => trivial
  | lbB n labs => trivial
  | unA n lab v => trivial
  | unB n lab v => trivial
  | unP n val => exact f.node _ h
  | ueA e v => exact h
  | ueB e v => exact h
  | ueP e r v =>
    simp only [Local] at h ⊢
    obtain ⟨h1, hD, r', hr', hs⟩ := h
    obtain ⟨r'', hr'', hs'⟩ := f.upd e rfl r' hr'
    exact ⟨h1, hD, r'', hr'', ⟨hs'.1.trans hs.1, hs'.2.1.trans hs.2.1, hs'.2.2.trans hs.2.2⟩⟩
  | ueO e other =>
    simp only [Local] at h ⊢
    obtain ⟨h1, h2, h3⟩ := h
    obtain ⟨d1, _⟩ := f.del e rfl
    refine ⟨h1, h2, ?_⟩
    cases hx : edgeAt m' e with
    | none => rfl
    | some r => rw [d1 r hx] at h3; cases h3

theorem Local.holds_held {ne0 : Nat} {D : Nat → Prop} {m : KV} {ne : Nat} {held : List Key} {ph : Ph} {k : Key}
    (h : Local ne0 D m ne held ph) (hk : ph.holds = some k) : k ∈ held := by
  cases ph with
  | add x r k' ks st =>
    simp only [Local] at h
    cases st <;> simp [Ph.holds, Stage.holding] at hk <;> subst hk
    · exact h.2.2.2.2
    · exact h.2.2.2.2.1
    · exact h.2.2.2.2
  | rm e r k' ks st =>
    simp only [Local] at h
    cases st <;> simp [Ph.holds, Stage.holding] at hk <;> subst hk
    · exact h.2.2.2.2.2
    · exact h.2.2.2.2.2.1
    · exact h.2.2.2.2.2
  | _ => simp [Ph.holds] at hk

theorem Local.creates_le {ne0 : Nat} {D : Nat → Prop} {m : KV} {ne : Nat} {held : List Key} {ph : Ph} {x : Nat}
    (h : Local ne0 D m ne held ph) (hx : ph.creates = some x) : ne0 < x ∧ x ≤ ne := by
  cases ph with
  | pre x' a b d ty v => simp [Ph.creates] at hx; subst hx; exact ⟨h.2.1, h.2.2.1⟩
  | add x' r k ks st => simp [Ph.creates] at hx; subst hx; exact ⟨h.2.1, h.2.2.1⟩
  | _ => simp [Ph.creates] at hx

theorem Local.deletes_le {ne0 : Nat} {D : Nat → Prop} {m : KV} {ne : Nat} {held : List Key} {ph : Ph} {e : Nat}
    (h : Local ne0 D m ne held ph) (he : ph.deletes = some e) : e ≤ ne0 := by
  cases ph with
  | rm e' r k ks st => simp [Ph.deletes] at he; subst he; exact h.1
  | drec e' r => simp [Ph.deletes] at he; subst he; exact h.1
  | ueO e' o => simp [Ph.deletes] at he; subst he; exact h.1
  | _ => simp [Ph.deletes] at he

theorem Local.updates_le {ne0 : Nat} {D : Nat → Prop} {m : KV} {ne : Nat} {held : List Key} {ph : Ph} {e : Nat}
    (h : Local ne0 D m ne held ph) (he : ph.updates = some e) : e ≤ ne0 ∧ ¬ D e ∧ (edgeAt m e).isSome = true := by
  cases ph with
  | ueP e' r v =>
    simp [Ph.updates] at he; subst he
    obtain ⟨h1, h2, r', hr', _⟩ := h
    exact ⟨h1, h2, by simp [hr']⟩
  | _ => simp [Ph.updates] at he

/-- a thread that still removes entries of `e`, or is about to delete its record, only exists for
    ids that may be deleted; a thread that waits for the record of `e` to stay absent sees it absent -/
theorem Local.deletes_D {ne0 : Nat} {D : Nat → Prop} {m : KV} {ne : Nat} {held : List Key} {ph : Ph} {e : Nat}
    (h : Local ne0 D m ne held ph) (he : ph.deletes = some e) : D e ∨ edgeAt m e = none := by
  cases ph with
  | rm e' r k ks st => simp [Ph.deletes] at he; subst he; exact Or.inl h.2.1
  | drec e' r => simp [Ph.deletes] at he; subst he; exact Or.inl h.2.1
  | ueO e' o => simp [Ph.deletes] at he; subst he; exact Or.inr h.2.2
  | _ => simp [Ph.deletes] at he

theorem get_set {phs : List Ph} {i : Nat} {ph : Ph} (hi : phs[i]? = some ph) (ph' : Ph) (j : Nat) :
    (phs.set i ph')[j]? = if j = i then some ph' else phs[j]? := by
  have hlt : i < phs.length := by
    rcases Nat.lt_or_ge i phs.length with h | h
    · exact h
    · rw [List.getElem?_eq_none h] at hi; cases hi
  rw [List.getElem?_set]
  by_cases h : j = i
  · subst h; simp [hlt]
  · have : ¬ i = j := fun hh => h hh.symm
    simp [h, this]

/-- the step of thread `i` from phase `ph` to `ph'`: what has to be shown -/
theorem J.step {ne0 : Nat} {D : Nat → Prop} {phs : List Ph} {s : St} {held : List Key} {i : Nat} {ph : Ph}
    (hJ : J ne0 D phs s held) (hi : phs[i]? = some ph) (ph' : Ph) (s' : St) (held' : List Key)
    (hne : s.ne ≤ s'.ne)
    (hnn : s.nn ≤ s'.nn)
    (hfresh : ∀ x, s'.ne < x → edgeAt s'.kv x = none)
    (hfreshN : ∀ n, s'.nn < n → nodeEx s'.kv n = false)
    (he1 : ∀ x r, edgeAt s'.kv x = some r → nodeEx s'.kv r.src = true ∧ nodeEx s'.kv r.dst = true ∧
        ∀ K ∈ req r, x ∈ L s'.kv K ∨ Exc ph' x K ∨
          ∃ (j : Nat) (ph2 : Ph), j ≠ i ∧ phs[j]? = some ph2 ∧ Exc ph2 x K)
    (he2 : ∀ K x, x ∈ L s'.kv K → ∃ r, edgeAt s'.kv x = some r ∧ K ∈ req r)
    (he3 : ∀ K, (L s'.kv K).Nodup)
    (hloc : Local ne0 D s'.kv s'.ne held' ph')
    (hframe : ∀ (j : Nat) (ph2 : Ph), j ≠ i → phs[j]? = some ph2 → Frame ph2 s.kv s.ne held s'.kv s'.ne held')
    (hexcl : ∀ k, ph'.holds = some k → ph.holds = some k ∨ k ∉ held)
    (huniq : ∀ x, ph'.creates = some x → ph.creates = some x ∨ s.ne < x)
    (hmk : ∀ x, ph'.makes = some x → ph.makes = some x ∨ (s.nn < x ∧ x ≤ s'.nn)) :
    J ne0 D (phs.set i ph') s' held' := by
  refine ⟨Nat.le_trans hJ.ne_ge hne, hfresh, hfreshN, ?_, he2, he3, ?_, ?_, ?_, ?_, ?_⟩
  · intro x r hr
    obtain ⟨h1, h2, h3⟩ := he1 x r hr
    refine ⟨h1, h2, fun K hK => ?_⟩
    rcases h3 K hK with h | h | ⟨j, ph2, hj, hp, hx⟩
    · exact Or.inl h
    · exact Or.inr ⟨i, ph', by rw [get_set hi]; simp, h⟩
    · exact Or.inr ⟨j, ph2, by rw [get_set hi]; simp [hj, hp], hx⟩
  · intro j ph2 hj
    rw [get_set hi] at hj
    by_cases hji : j = i
    · simp [hji] at hj; subst hj; exact hloc
    · simp [hji] at hj; exact (hJ.loc j ph2 hj).frame (hframe j ph2 hji hj)
  · intro a b pa pb hab ha hb k hk1 hk2
    rw [get_set hi] at ha hb
    by_cases hai : a = i
    · have hbi : b ≠ i := fun h => hab (hai.trans h.symm)
      simp [hai] at ha; simp [hbi] at hb; subst ha
      rcases hexcl k hk1 with h | h
      · exact hJ.excl i b ph pb (fun h => hbi h.symm) hi hb k h hk2
      · exact h ((hJ.loc b pb hb).holds_held hk2)
    · simp [hai] at ha
      by_cases hbi : b = i
      · simp [hbi] at hb; subst hb
        rcases hexcl k hk2 with h | h
        · exact hJ.excl a i pa ph hai ha hi k hk1 h
        · exact h ((hJ.loc a pa ha).holds_held hk1)
      · simp [hbi] at hb
        exact hJ.excl a b pa pb hab ha hb k hk1 hk2
  · intro a b pa pb hab ha hb x hx1 hx2
    rw [get_set hi] at ha hb
    by_cases hai : a = i
    · have hbi : b ≠ i := fun h => hab (hai.trans h.symm)
      simp [hai] at ha; simp [hbi] at hb; subst ha
      rcases huniq x hx1 with h | h
      · exact hJ.uniq i b ph pb (fun h => hbi h.symm) hi hb x h hx2
      · have := ((hJ.loc b pb hb).creates_le hx2).2; omega
    · simp [hai] at ha
      by_cases hbi : b = i
      · simp [hbi] at hb; subst hb
        rcases huniq x hx2 with h | h
        · exact hJ.uniq a i pa ph hai ha hi x hx1 h
        · have := ((hJ.loc a pa ha).creates_le hx1).2; omega
      · simp [hbi] at hb
        exact hJ.uniq a b pa pb hab ha hb x hx1 hx2
  · intro j ph2 id hj hm
    rw [get_set hi] at hj
    by_cases hji : j = i
    · simp [hji] at hj; subst hj
      rcases hmk id hm with h | h
      · exact Nat.le_trans (hJ.mkle i ph id hi h) hnn
      · exact h.2
    · simp [hji] at hj
      exact Nat.le_trans (hJ.mkle j ph2 id hj hm) hnn
  · intro a b pa pb hab ha hb x hx1 hx2
    rw [get_set hi] at ha hb
    by_cases hai : a = i
    · have hbi : b ≠ i := fun h => hab (hai.trans h.symm)
      simp [hai] at ha; simp [hbi] at hb; subst ha
      rcases hmk x hx1 with h | h
      · exact hJ.uniqN i b ph pb (fun h => hbi h.symm) hi hb x h hx2
      · have := hJ.mkle b pb x hb hx2; omega
    · simp [hai] at ha
      by_cases hbi : b = i
      · simp [hbi] at hb; subst hb
        rcases hmk x hx2 with h | h
        · exact hJ.uniqN a i pa ph hai ha hi x hx1 h
        · have := hJ.mkle a pa x ha hx1; omega
      · simp [hbi] at hb
        exact hJ.uniqN a b pa pb hab ha hb x hx1 hx2

/-- a step that leaves the store alone and does not shrink what thread `i` is excused for -/
theorem J.step_cnt {ne0 : Nat} {D : Nat → Prop} {phs : List Ph} {s : St} {held : List Key} {i : Nat} {ph : Ph}
    (hJ : J ne0 D phs s held) (hi : phs[i]? = some ph) (ph' : Ph) (ne' nn' : Nat) (held' : List Key)
    (hne : s.ne ≤ ne') (hnn : s.nn ≤ nn')
    (hexc : ∀ x K, Exc ph x K → Exc ph' x K)
    (hloc : Local ne0 D s.kv ne' held' ph')
    (hheld : ∀ (j : Nat) (ph2 : Ph), j ≠ i → phs[j]? = some ph2 → ∀ k, ph2.holds = some k → k ∈ held → k ∈ held')
    (hexcl : ∀ k, ph'.holds = some k → ph.holds = some k ∨ k ∉ held)
    (huniq : ∀ x, ph'.creates = some x → ph.creates = some x ∨ s.ne < x)
    (hmk : ∀ x, ph'.makes = some x → ph.makes = some x ∨ (s.nn < x ∧ x ≤ nn')) :
    J ne0 D (phs.set i ph') { s with ne := ne', nn := nn' } held' := by
  apply hJ.step hi ph' { s with ne := ne', nn := nn' } held' hne hnn
  · intro x hx; exact hJ.fresh x (by simp at hx; omega)
  · intro n hn; exact hJ.freshN n (by simp at hn; omega)
  · intro x r hr
    obtain ⟨h1, h2, h3⟩ := hJ.e1 x r hr
    refine ⟨h1, h2, fun K hK => ?_⟩
    rcases h3 K hK with h | ⟨j, ph2, hj, hx⟩
    · exact Or.inl h
    · by_cases hji : j = i
      · subst hji; rw [hi] at hj; cases hj; exact Or.inr (Or.inl (hexc x K hx))
      · exact Or.inr (Or.inr ⟨j, ph2, hji, hj, hx⟩)
  · exact hJ.e2
  · exact hJ.e3
  · exact hloc
  · intro j ph2 hji hj
    exact ⟨hne, fun _ h => h, hheld j ph2 hji hj, fun _ _ => rfl, fun _ _ => rfl,
      fun _ _ => ⟨fun _ h => h, fun _ h => h⟩, fun _ _ r hr => ⟨r, hr, rfl, rfl, rfl⟩, fun _ _ h => h⟩
  · exact hexcl
  · exact huniq
  · exact hmk

/-- a step that leaves the store and the node counter alone; `hmk` is discharged automatically when
    the new phase is not inside a `create_node` -/
theorem J.step_same {ne0 : Nat} {D : Nat → Prop} {phs : List Ph} {s : St} {held : List Key} {i : Nat} {ph : Ph}
    (hJ : J ne0 D phs s held) (hi : phs[i]? = some ph) (ph' : Ph) (ne' : Nat) (held' : List Key)
    (hne : s.ne ≤ ne')
    (hexc : ∀ x K, Exc ph x K → Exc ph' x K)
    (hloc : Local ne0 D s.kv ne' held' ph')
    (hheld : ∀ (j : Nat) (ph2 : Ph), j ≠ i → phs[j]? = some ph2 → ∀ k, ph2.holds = some k → k ∈ held → k ∈ held')
    (hexcl : ∀ k, ph'.holds = some k → ph.holds = some k ∨ k ∉ held)
    (huniq : ∀ x, ph'.creates = some x → ph.creates = some x ∨ s.ne < x)
    (hmk : ∀ x, ph'.makes = some x → ph.makes = some x := by intro x hx; simp [Ph.makes] at hx) :
    J ne0 D (phs.set i ph') { s with ne := ne' } held' :=
  hJ.step_cnt hi ph' ne' s.nn held' hne (Nat.le_refl _) hexc hloc hheld hexcl huniq (fun x hx => Or.inl (hmk x hx))

theorem req_cons (r : EdgeRec) : ∃ ks, req r = .out r.src :: ks := ⟨_, rfl⟩

/-! ### the store steps -/

theorem step_ceA {ne0 : Nat} {D : Nat → Prop} {phs : List Ph} {s : St} {held : List Key} {i : Nat} {a b : Nat} {d : Bool} {ty v : Nat}
    (hJ : J ne0 D phs s held) (hi : phs[i]? = some (.ceA a b d ty v)) :
    ∃ ph', ((Ph.ceA a b d ty v).prog.step s).1 = ph'.prog ∧
      J ne0 D (phs.set i ph') ((Ph.ceA a b d ty v).prog.step s).2 held := by
  simp only [Ph.prog, createEdgeProg, Prog.step]
  cases hn : (s.kv (.node a)).isSome with
  | false =>
    refine ⟨.fin (.nodeNotFound a), by simp [Ph.prog], ?_⟩
    exact hJ.step_same hi _ s.ne held (Nat.le_refl _) (fun x K h => by simp [Exc] at h) trivial
      (fun _ _ _ _ _ _ h => h) (fun k hk => by simp [Ph.holds] at hk) (fun x hx => by simp [Ph.creates] at hx)
  | true =>
    refine ⟨.ceB a b d ty v, by simp [Ph.prog], ?_⟩
    exact hJ.step_same hi _ s.ne held (Nat.le_refl _) (fun x K h => by simp [Exc] at h)
      (by simp only [Local]; exact hn)
      (fun _ _ _ _ _ _ h => h) (fun k hk => by simp [Ph.holds] at hk) (fun x hx => by simp [Ph.creates] at hx)

theorem step_ceB {ne0 : Nat} {D : Nat → Prop} {phs : List Ph} {s : St} {held : List Key} {i : Nat} {a b : Nat} {d : Bool} {ty v : Nat}
    (hJ : J ne0 D phs s held) (hi : phs[i]? = some (.ceB a b d ty v)) :
    ∃ ph', ((Ph.ceB a b d ty v).prog.step s).1 = ph'.prog ∧
      J ne0 D (phs.set i ph') ((Ph.ceB a b d ty v).prog.step s).2 held := by
  have ha : nodeEx s.kv a = true := hJ.loc i _ hi
  simp only [Ph.prog, createEdgeCheckB, Prog.step]
  cases hn : (s.kv (.node b)).isSome with
  | false =>
    refine ⟨.fin (.nodeNotFound b), by simp [Ph.prog], ?_⟩
    exact hJ.step_same hi _ s.ne held (Nat.le_refl _) (fun x K h => by simp [Exc] at h) trivial
      (fun _ _ _ _ _ _ h => h) (fun k hk => by simp [Ph.holds] at hk) (fun x hx => by simp [Ph.creates] at hx)
  | true =>
    refine ⟨.ceAl a b d ty v, by simp [Ph.prog], ?_⟩
    exact hJ.step_same hi _ s.ne held (Nat.le_refl _) (fun x K h => by simp [Exc] at h)
      (by simp only [Local]; exact ⟨ha, hn⟩)
      (fun _ _ _ _ _ _ h => h) (fun k hk => by simp [Ph.holds] at hk) (fun x hx => by simp [Ph.creates] at hx)

def reqTail (r : EdgeRec) : List Key := .inn r.dst :: (if r.directed then [] else [.out r.dst, .inn r.src])

theorem req_eq (r : EdgeRec) : req r = .out r.src :: reqTail r := rfl

theorem step_pre {ne0 : Nat} {D : Nat → Prop} {phs : List Ph} {s : St} {held : List Key} {i : Nat} {x a b : Nat} {d : Bool} {ty v : Nat}
    (hJ : J ne0 D phs s held) (hi : phs[i]? = some (.pre x a b d ty v)) :
    ∃ ph', ((Ph.pre x a b d ty v).prog.step s).1 = ph'.prog ∧
      J ne0 D (phs.set i ph') ((Ph.pre x a b d ty v).prog.step s).2 held := by
  obtain ⟨hx0, hlt, hle, ha, hb⟩ : edgeAt s.kv x = none ∧ ne0 < x ∧ x ≤ s.ne ∧ nodeEx s.kv a = true ∧ nodeEx s.kv b = true :=
    hJ.loc i _ hi
  refine ⟨.add x ⟨a, b, d, ty, v⟩ (.out a) (reqTail ⟨a, b, d, ty, v⟩) .acq, ?_, ?_⟩
  · simp only [Ph.prog, createEdgeFrom_eq, Prog.step, req_eq, addSeq, addAt]
  · simp only [Ph.prog, createEdgeFrom_eq, Prog.step]
    apply hJ.step hi _ { s with kv := upd s.kv (.edge x) (some (.edge ⟨a, b, d, ty, v⟩)) } held (Nat.le_refl _) (Nat.le_refl _)
    · intro y hy
      have : y ≠ x := by simp at hy; omega
      simp [this]; exact hJ.fresh y hy
    · intro n hn; simpa using hJ.freshN n hn
    · intro y ry hy
      simp only [edgeAt_upd, nodeEx_upd, L_upd_edge] at hy ⊢
      by_cases hyx : y = x
      · subst hyx; simp at hy; subst hy
        refine ⟨by simpa using ha, by simpa using hb, fun K hK => Or.inr (Or.inl ?_)⟩
        simp only [Exc, pend, true_and]; exact hK
      · simp [hyx] at hy
        obtain ⟨h1, h2, h3⟩ := hJ.e1 y ry hy
        refine ⟨by simpa using h1, by simpa using h2, fun K hK => ?_⟩
        rcases h3 K hK with h | ⟨j, ph2, hj, he⟩
        · exact Or.inl h
        · by_cases hji : j = i
          · subst hji; rw [hi] at hj; cases hj; simp [Exc] at he
          · exact Or.inr (Or.inr ⟨j, ph2, hji, hj, he⟩)
    · intro K z hz
      simp only [L_upd_edge] at hz
      obtain ⟨rz, hrz, hK⟩ := hJ.e2 K z hz
      have : z ≠ x := by rintro rfl; rw [hx0] at hrz; cases hrz
      exact ⟨rz, by simp [this, hrz], hK⟩
    · intro K; simp only [L_upd_edge]; exact hJ.e3 K
    · simp only [Local, stageOK]
      refine ⟨by simp, hlt, hle, ?_, trivial⟩
      intro K hK; rw [req_eq]; exact hK
    · intro j ph2 hji hj
      refine ⟨Nat.le_refl _, fun n h => by simpa using h, fun _ _ h => h, fun _ _ => by simp, ?_, ?_, ?_,
        fun _ _ h => by simpa using h⟩
      · intro y hy
        have : y ≠ x := by
          rintro rfl
          exact hJ.uniq j i ph2 _ hji hj hi y hy rfl
        simp [this]
      · intro e he
        have : e ≠ x := by have := (hJ.loc j ph2 hj).deletes_le he; omega
        exact ⟨fun r hr => by simpa [this] using hr, fun K h => by simpa using h⟩
      · intro e he r hr
        have : e ≠ x := by have := ((hJ.loc j ph2 hj).updates_le he).1; omega
        exact ⟨r, by simpa [this] using hr, rfl, rfl, rfl⟩
    · intro k hk; simp [Ph.holds, Stage.holding] at hk
    · intro y hy; simp [Ph.creates] at hy ⊢; exact Or.inl hy
    · intro y hy; simp [Ph.makes] at hy

theorem step_add_get {ne0 : Nat} {D : Nat → Prop} {phs : List Ph} {s : St} {held : List Key} {i : Nat} {x : Nat} {r : EdgeRec}
    {k : Key} {ks : List Key}
    (hJ : J ne0 D phs s held) (hi : phs[i]? = some (.add x r k ks .get)) :
    ∃ ph', ((Ph.add x r k ks .get).prog.step s).1 = ph'.prog ∧
      J ne0 D (phs.set i ph') ((Ph.add x r k ks .get).prog.step s).2 held := by
  obtain ⟨h1, h2, h3, h4, h5⟩ : edgeAt s.kv x = some r ∧ ne0 < x ∧ x ≤ s.ne ∧ (∀ K ∈ k :: ks, K ∈ req r) ∧ k ∈ held :=
    hJ.loc i _ hi
  have hkl : k.isList = true := req_isList (h4 k (by simp))
  refine ⟨.add x r k ks (.put (L s.kv k)), ?_, ?_⟩
  · simp only [Ph.prog, addAt, Prog.step, L_of_isList hkl, ins]
  · simp only [Ph.prog, addAt, Prog.step]
    exact hJ.step_same hi _ s.ne held (Nat.le_refl _) (fun y K h => by simpa [Exc, pend] using h)
      (by simp only [Local, stageOK, and_true]; exact ⟨h1, h2, h3, h4, h5⟩)
      (fun _ _ _ _ _ _ h => h) (fun k' hk => by simp [Ph.holds, Stage.holding] at hk ⊢; exact Or.inl hk)
      (fun y hy => by simp [Ph.creates] at hy ⊢; exact Or.inl hy)

theorem step_add_put {ne0 : Nat} {D : Nat → Prop} {phs : List Ph} {s : St} {held : List Key} {i : Nat} {x : Nat} {r : EdgeRec}
    {k : Key} {ks : List Key} {l : List Nat}
    (hJ : J ne0 D phs s held) (hi : phs[i]? = some (.add x r k ks (.put l))) :
    ∃ ph', ((Ph.add x r k ks (.put l)).prog.step s).1 = ph'.prog ∧
      J ne0 D (phs.set i ph') ((Ph.add x r k ks (.put l)).prog.step s).2 held := by
  obtain ⟨h1, h2, h3, h4, h5, h6⟩ : edgeAt s.kv x = some r ∧ ne0 < x ∧ x ≤ s.ne ∧ (∀ K ∈ k :: ks, K ∈ req r) ∧
      k ∈ held ∧ l = L s.kv k := hJ.loc i _ hi
  have hkl : k.isList = true := req_isList (h4 k (by simp))
  subst h6
  refine ⟨.add x r k ks .rel, by simp only [Ph.prog, addAt, Prog.step], ?_⟩
  simp only [Ph.prog, addAt, Prog.step]
  have hL : ∀ K, L (upd s.kv k (some (.list (ins (L s.kv k) x)))) K = if K = k then ins (L s.kv k) x else L s.kv K :=
    fun K => L_upd_list _ _ _ _ hkl
  have hE : ∀ y, edgeAt (upd s.kv k (some (.list (ins (L s.kv k) x)))) y = edgeAt s.kv y :=
    fun y => edgeAt_upd_list _ _ _ _ hkl
  have hN : ∀ n, nodeEx (upd s.kv k (some (.list (ins (L s.kv k) x)))) n = nodeEx s.kv n :=
    fun n => nodeEx_upd_list _ _ _ _ hkl
  apply hJ.step hi _ { s with kv := upd s.kv k (some (.list (ins (L s.kv k) x))) } held (Nat.le_refl _) (Nat.le_refl _)
  · intro y hy; simp only [hE]; exact hJ.fresh y hy
  · intro n hn; simp only [hN]; exact hJ.freshN n hn
  · intro y ry hy
    simp only [hE, hN, hL] at hy ⊢
    obtain ⟨a1, a2, a3⟩ := hJ.e1 y ry hy
    refine ⟨a1, a2, fun K hK => ?_⟩
    rcases a3 K hK with h | ⟨j, ph2, hj, he⟩
    · left; split
      · rename_i hk; subst hk; exact mem_ins.mpr (Or.inl h)
      · exact h
    · by_cases hji : j = i
      · subst hji; rw [hi] at hj; cases hj
        simp only [Exc, pend] at he ⊢
        obtain ⟨rfl, hm⟩ := he
        by_cases hKk : K = k
        · left; simp [hKk, mem_ins]
        · right; left; simp [hKk] at hm; exact ⟨rfl, hm⟩
      · exact Or.inr (Or.inr ⟨j, ph2, hji, hj, he⟩)
  · intro K z hz
    simp only [hL, hE] at hz ⊢
    split at hz
    · rename_i hk; subst hk
      rcases mem_ins.mp hz with h | h
      · exact hJ.e2 _ z h
      · subst h; exact ⟨r, h1, h4 _ (by simp)⟩
    · exact hJ.e2 K z hz
  · intro K; simp only [hL]; split
    · exact nodup_ins (hJ.e3 _)
    · exact hJ.e3 K
  · simp only [Local, stageOK, hE]; exact ⟨h1, h2, h3, h4, h5⟩
  · intro j ph2 hji hj
    refine ⟨Nat.le_refl _, fun n h => by rw [hN]; exact h, fun _ _ h => h, ?_, fun y _ => hE y, ?_,
      fun e _ r hr => ⟨r, by rw [hE]; exact hr, rfl, rfl, rfl⟩, fun n _ h => by rw [hN]; exact h⟩
    · intro k2 hk2
      have : k2 ≠ k := by
        rintro rfl
        exact hJ.excl j i ph2 _ hji hj hi k2 hk2 (by simp [Ph.holds, Stage.holding])
      simp [hL, this]
    · intro e he
      refine ⟨fun r' hr' => by simpa [hE] using hr', fun K hK => ?_⟩
      have hle := (hJ.loc j ph2 hj).deletes_le he
      simp only [hL]; split
      · rename_i hk; subst hk
        rw [mem_ins]; intro h; rcases h with h | h
        · exact hK h
        · omega
      · exact hK
  · intro k' hk; simp [Ph.holds, Stage.holding] at hk ⊢; exact Or.inl hk
  · intro y hy; simp [Ph.creates] at hy ⊢; exact Or.inl hy
  · intro y hy; simp [Ph.makes] at hy

theorem step_deA {ne0 : Nat} {D : Nat → Prop} {phs : List Ph} {s : St} {held : List Key} {i : Nat} {e : Nat}
    (hJ : J ne0 D phs s held) (hi : phs[i]? = some (.deA e)) :
    ∃ ph', ((Ph.deA e).prog.step s).1 = ph'.prog ∧
      J ne0 D (phs.set i ph') ((Ph.deA e).prog.step s).2 held := by
  obtain ⟨hle, hD⟩ : e ≤ ne0 ∧ D e := hJ.loc i _ hi
  simp only [Ph.prog, deleteEdgeProg, Prog.step]
  have hv : edgeOf (s.kv (.edge e)) = edgeAt s.kv e := rfl
  rw [hv]
  cases hr : edgeAt s.kv e with
  | none =>
    refine ⟨.fin (.edgeNotFound e), by simp [Ph.prog], ?_⟩
    exact hJ.step_same hi _ s.ne held (Nat.le_refl _) (fun x K h => by simp [Exc] at h) trivial
      (fun _ _ _ _ _ _ h => h) (fun k hk => by simp [Ph.holds] at hk) (fun x hx => by simp [Ph.creates] at hx)
  | some r =>
    refine ⟨.rm e r (.out r.src) (reqTail r) .acq, ?_, ?_⟩
    · simp only [Ph.prog, deleteEdgeBody_eq, req_eq, rmSeq, rmAt]
    · refine hJ.step_same hi _ s.ne held (Nat.le_refl _) (fun x K h => by simp [Exc] at h) ?_
        (fun _ _ _ _ _ _ h => h) (fun k hk => by simp [Ph.holds, Stage.holding] at hk)
        (fun x hx => by simp [Ph.creates] at hx)
      simp only [Local, stageOK, pend, and_true]
      refine ⟨hle, hD, fun r' hr' => by rw [hr] at hr'; cases hr'; rfl, fun K hK => by rw [req_eq]; exact hK, ?_⟩
      intro K hK hn; rw [req_eq] at hK; exact absurd hK hn

theorem step_rm_get {ne0 : Nat} {D : Nat → Prop} {phs : List Ph} {s : St} {held : List Key} {i : Nat} {e : Nat} {r : EdgeRec}
    {k : Key} {ks : List Key}
    (hJ : J ne0 D phs s held) (hi : phs[i]? = some (.rm e r k ks .get)) :
    ∃ ph', ((Ph.rm e r k ks .get).prog.step s).1 = ph'.prog ∧
      J ne0 D (phs.set i ph') ((Ph.rm e r k ks .get).prog.step s).2 held := by
  obtain ⟨h1, hD, h2, h3, h4, h5⟩ : e ≤ ne0 ∧ D e ∧ (∀ r', edgeAt s.kv e = some r' → r' = r) ∧ (∀ K ∈ k :: ks, K ∈ req r) ∧
      (∀ K ∈ req r, K ∉ k :: ks → e ∉ L s.kv K) ∧ k ∈ held := hJ.loc i _ hi
  have hkl : k.isList = true := req_isList (h3 k (by simp))
  simp only [Ph.prog, rmAt, Prog.step]
  cases hv : s.kv k with
  | none =>
    refine ⟨.rm e r k ks .rel, by simp only [Ph.prog, rmAt], ?_⟩
    refine hJ.step_same hi _ s.ne held (Nat.le_refl _) (fun y K h => by simpa [Exc] using h) ?_
      (fun _ _ _ _ _ _ h => h) (fun k' hk => by simp [Ph.holds, Stage.holding] at hk ⊢; exact Or.inl hk)
      (fun y hy => by simp [Ph.creates] at hy)
    simp only [Local, stageOK, pend]
    refine ⟨h1, hD, h2, h3, ?_, h5⟩
    intro K hK hn
    by_cases hKk : K = k
    · subst hKk; rw [L_of_isList hkl, hv]; simp
    · exact h4 K hK (by simp [hKk, hn])
  | some val =>
    refine ⟨.rm e r k ks (.put (L s.kv k)), ?_, ?_⟩
    · simp only [Ph.prog, rmAt, L_of_isList hkl, hv, listOf, rmv]
    · refine hJ.step_same hi _ s.ne held (Nat.le_refl _) (fun y K h => by simpa [Exc] using h) ?_
        (fun _ _ _ _ _ _ h => h) (fun k' hk => by simp [Ph.holds, Stage.holding] at hk ⊢; exact Or.inl hk)
        (fun y hy => by simp [Ph.creates] at hy)
      simp only [Local, stageOK, pend, and_true]
      exact ⟨h1, hD, h2, h3, h4, h5⟩

theorem step_rm_put {ne0 : Nat} {D : Nat → Prop} {phs : List Ph} {s : St} {held : List Key} {i : Nat} {e : Nat} {r : EdgeRec}
    {k : Key} {ks : List Key} {l : List Nat}
    (hJ : J ne0 D phs s held) (hi : phs[i]? = some (.rm e r k ks (.put l))) :
    ∃ ph', ((Ph.rm e r k ks (.put l)).prog.step s).1 = ph'.prog ∧
      J ne0 D (phs.set i ph') ((Ph.rm e r k ks (.put l)).prog.step s).2 held := by
  obtain ⟨h1, hD, h2, h3, h4, h5, h6⟩ : e ≤ ne0 ∧ D e ∧ (∀ r', edgeAt s.kv e = some r' → r' = r) ∧ (∀ K ∈ k :: ks, K ∈ req r) ∧
      (∀ K ∈ req r, K ∉ k :: ks → e ∉ L s.kv K) ∧ k ∈ held ∧ l = L s.kv k := hJ.loc i _ hi
  have hkl : k.isList = true := req_isList (h3 k (by simp))
  subst h6
  refine ⟨.rm e r k ks .rel, by simp only [Ph.prog, rmAt, Prog.step], ?_⟩
  simp only [Ph.prog, rmAt, Prog.step]
  have hL : ∀ K, L (upd s.kv k (some (.list (rmv (L s.kv k) e)))) K = if K = k then rmv (L s.kv k) e else L s.kv K :=
    fun K => L_upd_list _ _ _ _ hkl
  have hE : ∀ y, edgeAt (upd s.kv k (some (.list (rmv (L s.kv k) e)))) y = edgeAt s.kv y :=
    fun y => edgeAt_upd_list _ _ _ _ hkl
  have hN : ∀ n, nodeEx (upd s.kv k (some (.list (rmv (L s.kv k) e)))) n = nodeEx s.kv n :=
    fun n => nodeEx_upd_list _ _ _ _ hkl
  apply hJ.step hi _ { s with kv := upd s.kv k (some (.list (rmv (L s.kv k) e))) } held (Nat.le_refl _) (Nat.le_refl _)
  · intro y hy; simp only [hE]; exact hJ.fresh y hy
  · intro n hn; simp only [hN]; exact hJ.freshN n hn
  · intro y ry hy
    simp only [hE, hN, hL] at hy ⊢
    obtain ⟨a1, a2, a3⟩ := hJ.e1 y ry hy
    refine ⟨a1, a2, fun K hK => ?_⟩
    by_cases hye : y = e
    · right; left; simp [Exc, hye]
    · rcases a3 K hK with h | ⟨j, ph2, hj, he⟩
      · left; split
        · rename_i hk; subst hk; exact mem_rmv.mpr ⟨h, hye⟩
        · exact h
      · by_cases hji : j = i
        · subst hji; rw [hi] at hj; cases hj
          simp only [Exc] at he; exact absurd he.symm hye
        · exact Or.inr (Or.inr ⟨j, ph2, hji, hj, he⟩)
  · intro K z hz
    simp only [hL, hE] at hz ⊢
    split at hz
    · rename_i hk; subst hk; exact hJ.e2 _ z (mem_rmv.mp hz).1
    · exact hJ.e2 K z hz
  · intro K; simp only [hL]; split
    · exact nodup_rmv (hJ.e3 _)
    · exact hJ.e3 K
  · simp only [Local, stageOK, hE, pend]
    refine ⟨h1, hD, h2, h3, ?_, h5⟩
    intro K hK hn
    simp only [hL]; split
    · rw [mem_rmv]; exact fun h => h.2 rfl
    · rename_i hKk; exact h4 K hK (by simp [hKk, hn])
  · intro j ph2 hji hj
    refine ⟨Nat.le_refl _, fun n h => by rw [hN]; exact h, fun _ _ h => h, ?_, fun y _ => hE y, ?_,
      fun e _ r hr => ⟨r, by rw [hE]; exact hr, rfl, rfl, rfl⟩, fun n _ h => by rw [hN]; exact h⟩
    · intro k2 hk2
      have : k2 ≠ k := by
        rintro rfl
        exact hJ.excl j i ph2 _ hji hj hi k2 hk2 (by simp [Ph.holds, Stage.holding])
      simp [hL, this]
    · intro e2 he2
      refine ⟨fun r' hr' => by simpa [hE] using hr', fun K hK => ?_⟩
      simp only [hL]; split
      · rename_i hk; subst hk
        rw [mem_rmv]; exact fun h => hK h.1
      · exact hK
  · intro k' hk; simp [Ph.holds, Stage.holding] at hk ⊢; exact Or.inl hk
  · intro y hy; simp [Ph.creates] at hy
  · intro y hy; simp [Ph.makes] at hy

theorem step_drec {ne0 : Nat} {D : Nat → Prop} {phs : List Ph} {s : St} {held : List Key} {i : Nat} {e : Nat} {r : EdgeRec}
    (hJ : J ne0 D phs s held) (hi : phs[i]? = some (.drec e r)) :
    ∃ ph', ((Ph.drec e r).prog.step s).1 = ph'.prog ∧
      J ne0 D (phs.set i ph') ((Ph.drec e r).prog.step s).2 held := by
  obtain ⟨h1, hD, h2, h3⟩ : e ≤ ne0 ∧ D e ∧ (∀ r', edgeAt s.kv e = some r' → r' = r) ∧ (∀ K ∈ req r, e ∉ L s.kv K) :=
    hJ.loc i _ hi
  refine ⟨.fin (if (s.kv (.edge e)).isSome then .ok else .storage), by simp only [Ph.prog, delTail, Prog.step], ?_⟩
  simp only [Ph.prog, delTail, Prog.step]
  apply hJ.step hi _ { s with kv := upd s.kv (.edge e) none } held (Nat.le_refl _) (Nat.le_refl _)
  · intro y hy; simp only [edgeAt_upd]; split
    · rfl
    · exact hJ.fresh y hy
  · intro n hn; simpa using hJ.freshN n hn
  · intro y ry hy
    simp only [edgeAt_upd, nodeEx_upd, L_upd_edge] at hy ⊢
    by_cases hye : y = e
    · simp [hye] at hy
    · simp [hye] at hy
      obtain ⟨a1, a2, a3⟩ := hJ.e1 y ry hy
      refine ⟨by simpa using a1, by simpa using a2, fun K hK => ?_⟩
      rcases a3 K hK with h | ⟨j, ph2, hj, he⟩
      · exact Or.inl h
      · by_cases hji : j = i
        · subst hji; rw [hi] at hj; cases hj
          simp only [Exc] at he; exact absurd he.symm hye
        · exact Or.inr (Or.inr ⟨j, ph2, hji, hj, he⟩)
  · intro K z hz
    simp only [L_upd_edge] at hz
    obtain ⟨rz, hrz, hK⟩ := hJ.e2 K z hz
    have : z ≠ e := by
      rintro rfl
      have := h2 rz hrz; subst this
      exact h3 K hK hz
    exact ⟨rz, by simp [this, hrz], hK⟩
  · intro K; simp only [L_upd_edge]; exact hJ.e3 K
  · trivial
  · intro j ph2 hji hj
    refine ⟨Nat.le_refl _, fun n h => by simpa using h, fun _ _ h => h, fun _ _ => by simp, ?_, ?_, ?_,
      fun _ _ h => by simpa using h⟩
    · intro y hy
      have : y ≠ e := by have := ((hJ.loc j ph2 hj).creates_le hy).1; omega
      simp [this]
    · intro e2 he2
      refine ⟨fun r' hr' => ?_, fun K h => by simpa using h⟩
      simp only [edgeAt_upd] at hr'; split at hr'
      · simp at hr'
      · exact hr'
    · intro e2 he2 r2 hr2
      have : e2 ≠ e := by
        rintro rfl
        exact ((hJ.loc j ph2 hj).updates_le he2).2.1 hD
      exact ⟨r2, by simpa [this] using hr2, rfl, rfl, rfl⟩
  · intro k hk; simp [Ph.holds] at hk
  · intro y hy; simp [Ph.creates] at hy
  · intro y hy; simp [Ph.makes] at hy

/-- a step that changes no view of the store (node existence, edge records, adjacency lists) -/
theorem J.step_views {ne0 : Nat} {D : Nat → Prop} {phs : List Ph} {s : St} {held : List Key} {i : Nat} {ph : Ph}
    (hJ : J ne0 D phs s held) (hi : phs[i]? = some ph) (ph' : Ph) (kv' : KV)
    (hN : ∀ n, nodeEx kv' n = nodeEx s.kv n)
    (hE : ∀ x, edgeAt kv' x = edgeAt s.kv x) (hL : ∀ K, L kv' K = L s.kv K)
    (hexc : ∀ x K, Exc ph x K → Exc ph' x K)
    (hloc : Local ne0 D kv' s.ne held ph')
    (hexcl : ∀ k, ph'.holds = some k → ph.holds = some k ∨ k ∉ held)
    (huniq : ∀ x, ph'.creates = some x → ph.creates = some x ∨ s.ne < x)
    (hmk : ∀ x, ph'.makes = some x → ph.makes = some x) :
    J ne0 D (phs.set i ph') { s with kv := kv' } held := by
  apply hJ.step hi ph' { s with kv := kv' } held (Nat.le_refl _) (Nat.le_refl _)
  · intro x hx; rw [hE]; exact hJ.fresh x hx
  · intro n hn; rw [hN]; exact hJ.freshN n hn
  · intro x r hr
    simp only [hE, hL, hN] at hr ⊢
    obtain ⟨h1, h2, h3⟩ := hJ.e1 x r hr
    refine ⟨h1, h2, fun K hK => ?_⟩
    rcases h3 K hK with h | ⟨j, ph2, hj, hx⟩
    · exact Or.inl h
    · by_cases hji : j = i
      · subst hji; rw [hi] at hj; cases hj; exact Or.inr (Or.inl (hexc x K hx))
      · exact Or.inr (Or.inr ⟨j, ph2, hji, hj, hx⟩)
  · intro K x hx; simp only [hE, hL] at hx ⊢; exact hJ.e2 K x hx
  · intro K; rw [hL]; exact hJ.e3 K
  · exact hloc
  · intro j ph2 hji hj
    exact ⟨Nat.le_refl _, fun n h => by rw [hN]; exact h, fun _ _ h => h, fun k _ => hL k, fun x _ => hE x,
      fun e _ => ⟨fun r hr => by rw [hE] at hr; exact hr, fun K h => by rw [hL]; exact h⟩,
      fun e _ r hr => ⟨r, by rw [hE]; exact hr, rfl, rfl, rfl⟩, fun n _ h => by rw [hN]; exact h⟩
  · exact hexcl
  · exact huniq
  · exact fun x hx => Or.inl (hmk x hx)

/-- the adjacency lists of a node that is not visible are empty: every listed edge has a record
    (`e2`), and both endpoints of every edge record are visible (`e1`) -/
theorem J.lists_of_invisible_node {ne0 : Nat} {D : Nat → Prop} {phs : List Ph} {s : St} {held : List Key}
    (hJ : J ne0 D phs s held) {id : Nat} (hid : nodeEx s.kv id = false) :
    L s.kv (.out id) = [] ∧ L s.kv (.inn id) = [] := by
  have key : ∀ K, (K = .out id ∨ K = .inn id) → L s.kv K = [] := by
    intro K hK
    cases hl : L s.kv K with
    | nil => rfl
    | cons x xs =>
      exfalso
      obtain ⟨r, hr, hreq⟩ := hJ.e2 K x (by rw [hl]; simp)
      obtain ⟨c1, c2, _⟩ := hJ.e1 x r hr
      have hend : id = r.src ∨ id = r.dst := by
        unfold req at hreq
        rcases hK with rfl | rfl <;> cases hd : r.directed <;> simp [hd] at hreq <;> grind
      rcases hend with h | h
      · rw [h, c1] at hid; cases hid
      · rw [h, c2] at hid; cases hid
  exact ⟨key _ (Or.inl rfl), key _ (Or.inr rfl)⟩

theorem step_cnP1 {ne0 : Nat} {D : Nat → Prop} {phs : List Ph} {s : St} {held : List Key} {i : Nat} {id l v : Nat}
    (hJ : J ne0 D phs s held) (hi : phs[i]? = some (.cnP1 id l v)) :
    ∃ ph', ((Ph.cnP1 id l v).prog.step s).1 = ph'.prog ∧
      J ne0 D (phs.set i ph') ((Ph.cnP1 id l v).prog.step s).2 held := by
  have hid : nodeEx s.kv id = false := hJ.loc i _ hi
  obtain ⟨ho, _⟩ := hJ.lists_of_invisible_node hid
  refine ⟨.cnP2 id l v, by simp only [Ph.prog, createNodeFrom, Prog.step], ?_⟩
  simp only [Ph.prog, createNodeFrom, Prog.step]
  apply hJ.step_views hi
  · intro n; exact nodeEx_upd_list _ _ _ _ rfl
  · intro x; exact edgeAt_upd_list _ _ _ _ rfl
  · intro K; rw [L_upd_list _ _ _ _ rfl]; split
    · rename_i h; subst h; exact ho.symm
    · rfl
  · intro x K h; simp [Exc] at h
  · show nodeEx _ id = false
    rw [nodeEx_upd_list _ _ _ _ rfl]; exact hid
  · intro k hk; simp [Ph.holds] at hk
  · intro x hx; simp [Ph.creates] at hx
  · intro x hx; simpa [Ph.makes] using hx

theorem step_cnP2 {ne0 : Nat} {D : Nat → Prop} {phs : List Ph} {s : St} {held : List Key} {i : Nat} {id l v : Nat}
    (hJ : J ne0 D phs s held) (hi : phs[i]? = some (.cnP2 id l v)) :
    ∃ ph', ((Ph.cnP2 id l v).prog.step s).1 = ph'.prog ∧
      J ne0 D (phs.set i ph') ((Ph.cnP2 id l v).prog.step s).2 held := by
  have hid : nodeEx s.kv id = false := hJ.loc i _ hi
  obtain ⟨_, hin⟩ := hJ.lists_of_invisible_node hid
  refine ⟨.cnP3 id l v, by simp only [Ph.prog, Prog.step], ?_⟩
  simp only [Ph.prog, Prog.step]
  apply hJ.step_views hi
  · intro n; exact nodeEx_upd_list _ _ _ _ rfl
  · intro x; exact edgeAt_upd_list _ _ _ _ rfl
  · intro K; rw [L_upd_list _ _ _ _ rfl]; split
    · rename_i h; subst h; exact hin.symm
    · rfl
  · intro x K h; simp [Exc] at h
  · show nodeEx _ id = false
    rw [nodeEx_upd_list _ _ _ _ rfl]; exact hid
  · intro k hk; simp [Ph.holds] at hk
  · intro x hx; simp [Ph.creates] at hx
  · intro x hx; simpa [Ph.makes] using hx

/-- a thread writes the record of node `n` (a node no OTHER thread is about to make visible) and
    finishes its operation: only `nodeEx n` may change, to `true` -/
theorem J.step_putNode {ne0 : Nat} {D : Nat → Prop} {phs : List Ph} {s : St} {held : List Key} {i : Nat} {ph : Ph}
    (hJ : J ne0 D phs s held) (hi : phs[i]? = some ph) (n : Nat) (val : Val) (res : Res)
    (hle : n ≤ s.nn)
    (hother : ∀ (j : Nat) (ph2 : Ph), j ≠ i → phs[j]? = some ph2 → ph2.makes ≠ some n)
    (hexc : ∀ x K, ¬ Exc ph x K) :
    J ne0 D (phs.set i (.fin res)) { s with kv := upd s.kv (.node n) (some val) } held := by
  have hN : ∀ m, nodeEx s.kv m = true → nodeEx (upd s.kv (.node n) (some val)) m = true := by
    intro m hm; simp only [nodeEx_upd]; split
    · rfl
    · exact hm
  apply hJ.step hi _ { s with kv := upd s.kv (.node n) (some val) } held (Nat.le_refl _) (Nat.le_refl _)
  · intro y hy; simp; exact hJ.fresh y hy
  · intro m hm
    have hne : m ≠ n := by simp at hm; omega
    simp [hne]; exact hJ.freshN m hm
  · intro y ry hy
    simp only [edgeAt_upd, L_upd_node] at hy ⊢
    simp at hy
    obtain ⟨a1, a2, a3⟩ := hJ.e1 y ry hy
    refine ⟨hN _ a1, hN _ a2, fun K hK => ?_⟩
    rcases a3 K hK with h | ⟨j, ph2, hj, he⟩
    · exact Or.inl h
    · by_cases hji : j = i
      · subst hji; rw [hi] at hj; cases hj; exact absurd he (hexc y K)
      · exact Or.inr (Or.inr ⟨j, ph2, hji, hj, he⟩)
  · intro K z hz
    simp only [L_upd_node] at hz
    obtain ⟨rz, hrz, hK⟩ := hJ.e2 K z hz
    exact ⟨rz, by simpa using hrz, hK⟩
  · intro K; simp only [L_upd_node]; exact hJ.e3 K
  · trivial
  · intro j ph2 hji hj
    refine ⟨Nat.le_refl _, hN, fun _ _ h => h, fun _ _ => by simp, fun y _ => by simp,
      fun e _ => ⟨fun r hr => by simpa using hr, fun K h => by simpa using h⟩,
      fun e _ r hr => ⟨r, by simpa using hr, rfl, rfl, rfl⟩, ?_⟩
    intro id hid h
    have hne : id ≠ n := by rintro rfl; exact hother j ph2 hji hj hid
    simp [hne]; exact h
  · intro k hk; simp [Ph.holds] at hk
  · intro y hy; simp [Ph.creates] at hy
  · intro y hy; simp [Ph.makes] at hy

theorem step_cnP3 {ne0 : Nat} {D : Nat → Prop} {phs : List Ph} {s : St} {held : List Key} {i : Nat} {id l v : Nat}
    (hJ : J ne0 D phs s held) (hi : phs[i]? = some (.cnP3 id l v)) :
    ∃ ph', ((Ph.cnP3 id l v).prog.step s).1 = ph'.prog ∧
      J ne0 D (phs.set i ph') ((Ph.cnP3 id l v).prog.step s).2 held := by
  refine ⟨.fin (.id id), by simp only [Ph.prog, Prog.step], ?_⟩
  simp only [Ph.prog, Prog.step]
  exact hJ.step_putNode hi id _ _ (hJ.mkle i _ id hi rfl)
    (fun j ph2 hji hj => hJ.uniqN j i ph2 _ hji hj hi id |> fun f hm => f hm rfl)
    (fun x K h => by simp [Exc] at h)

theorem step_alA {ne0 : Nat} {D : Nat → Prop} {phs : List Ph} {s : St} {held : List Key} {i : Nat} {n l : Nat}
    (hJ : J ne0 D phs s held) (hi : phs[i]? = some (.alA n l)) :
    ∃ ph', ((Ph.alA n l).prog.step s).1 = ph'.prog ∧
      J ne0 D (phs.set i ph') ((Ph.alA n l).prog.step s).2 held := by
  simp only [Ph.prog, addLabelProg, Prog.step]
  have key : ∀ ph' : Ph, (∀ x K, ¬ Exc ph' x K) → ph'.holds = none → ph'.creates = none → ph'.makes = none →
      Local ne0 D s.kv s.ne held ph' → J ne0 D (phs.set i ph') s held := by
    intro ph' h1 h2 h3 hm h4
    exact hJ.step_same hi _ s.ne held (Nat.le_refl _) (fun x K h => by simp [Exc] at h) h4
      (fun _ _ _ _ _ _ h => h) (fun k hk => by simp [h2] at hk) (fun x hx => by simp [h3] at hx)
      (fun x hx => by simp [hm] at hx)
  cases hv : s.kv (.node n) with
  | none => exact ⟨.fin (.nodeNotFound n), by simp [Ph.prog], key _ (by simp [Exc]) rfl rfl rfl trivial⟩
  | some val =>
    simp only
    split
    · exact ⟨.fin .ok, by simp [Ph.prog], key _ (by simp [Exc]) rfl rfl rfl trivial⟩
    · exact ⟨.lbB n (labelsOf val ++ [l]), by simp [Ph.prog], key _ (by simp [Exc]) rfl rfl rfl trivial⟩

theorem step_rlA {ne0 : Nat} {D : Nat → Prop} {phs : List Ph} {s : St} {held : List Key} {i : Nat} {n l : Nat}
    (hJ : J ne0 D phs s held) (hi : phs[i]? = some (.rlA n l)) :
    ∃ ph', ((Ph.rlA n l).prog.step s).1 = ph'.prog ∧
      J ne0 D (phs.set i ph') ((Ph.rlA n l).prog.step s).2 held := by
  simp only [Ph.prog, removeLabelProg, Prog.step]
  have key : ∀ ph' : Ph, (∀ x K, ¬ Exc ph' x K) → ph'.holds = none → ph'.creates = none → ph'.makes = none →
      Local ne0 D s.kv s.ne held ph' → J ne0 D (phs.set i ph') s held := by
    intro ph' h1 h2 h3 hm h4
    exact hJ.step_same hi _ s.ne held (Nat.le_refl _) (fun x K h => by simp [Exc] at h) h4
      (fun _ _ _ _ _ _ h => h) (fun k hk => by simp [h2] at hk) (fun x hx => by simp [h3] at hx)
      (fun x hx => by simp [hm] at hx)
  cases hv : s.kv (.node n) with
  | none => exact ⟨.fin (.nodeNotFound n), by simp [Ph.prog], key _ (by simp [Exc]) rfl rfl rfl trivial⟩
  | some val =>
    simp only
    split
    · exact ⟨.lbB n ((labelsOf val).filter (fun x => x != l)), by simp [Ph.prog], key _ (by simp [Exc]) rfl rfl rfl trivial⟩
    · exact ⟨.fin .ok, by simp [Ph.prog], key _ (by simp [Exc]) rfl rfl rfl trivial⟩

theorem step_lbB {ne0 : Nat} {D : Nat → Prop} {phs : List Ph} {s : St} {held : List Key} {i : Nat} {n : Nat}
    {labs : List Nat}
    (hJ : J ne0 D phs s held) (hi : phs[i]? = some (.lbB n labs)) :
    ∃ ph', ((Ph.lbB n labs).prog.step s).1 = ph'.prog ∧
      J ne0 D (phs.set i ph') ((Ph.lbB n labs).prog.step s).2 held := by
  simp only [Ph.prog, Prog.step]
  have key : ∀ ph' : Ph, (∀ x K, ¬ Exc ph' x K) → ph'.holds = none → ph'.creates = none → ph'.makes = none →
      Local ne0 D s.kv s.ne held ph' → J ne0 D (phs.set i ph') s held := by
    intro ph' h1 h2 h3 hm h4
    exact hJ.step_same hi _ s.ne held (Nat.le_refl _) (fun x K h => by simp [Exc] at h) h4
      (fun _ _ _ _ _ _ h => h) (fun k hk => by simp [h2] at hk) (fun x hx => by simp [h3] at hx)
      (fun x hx => by simp [hm] at hx)
  cases hv : s.kv (.node n) with
  | none => exact ⟨.fin (.nodeNotFound n), by simp [Ph.prog, labelPut], key _ (by simp [Exc]) rfl rfl rfl trivial⟩
  | some val =>
    exact ⟨.unP n (.node labs (propOf val)), by simp [Ph.prog, labelPut], key _ (by simp [Exc]) rfl rfl rfl (by simp [Local, nodeEx, hv])⟩

theorem step_unA {ne0 : Nat} {D : Nat → Prop} {phs : List Ph} {s : St} {held : List Key} {i : Nat} {n : Nat}
    {lab : Option Nat} {v : Nat}
    (hJ : J ne0 D phs s held) (hi : phs[i]? = some (.unA n lab v)) :
    ∃ ph', ((Ph.unA n lab v).prog.step s).1 = ph'.prog ∧
      J ne0 D (phs.set i ph') ((Ph.unA n lab v).prog.step s).2 held := by
  simp only [Ph.prog, updateNodeProg, Prog.step]
  cases hv : s.kv (.node n) with
  | none =>
    refine ⟨.fin (.nodeNotFound n), by simp [Ph.prog], ?_⟩
    exact hJ.step_same hi _ s.ne held (Nat.le_refl _) (fun x K h => by simp [Exc] at h) trivial
      (fun _ _ _ _ _ _ h => h) (fun k hk => by simp [Ph.holds] at hk) (fun x hx => by simp [Ph.creates] at hx)
  | some val =>
    refine ⟨.unB n lab v, by simp [Ph.prog], ?_⟩
    exact hJ.step_same hi _ s.ne held (Nat.le_refl _) (fun x K h => by simp [Exc] at h) trivial
      (fun _ _ _ _ _ _ h => h) (fun k hk => by simp [Ph.holds] at hk) (fun x hx => by simp [Ph.creates] at hx)

theorem step_unB {ne0 : Nat} {D : Nat → Prop} {phs : List Ph} {s : St} {held : List Key} {i : Nat} {n : Nat}
    {lab : Option Nat} {v : Nat}
    (hJ : J ne0 D phs s held) (hi : phs[i]? = some (.unB n lab v)) :
    ∃ ph', ((Ph.unB n lab v).prog.step s).1 = ph'.prog ∧
      J ne0 D (phs.set i ph') ((Ph.unB n lab v).prog.step s).2 held := by
  simp only [Ph.prog, updateNodeSecond, Prog.step]
  have key : ∀ ph' : Ph, (∀ x K, ¬ Exc ph' x K) → ph'.holds = none → ph'.creates = none → ph'.makes = none →
      Local ne0 D s.kv s.ne held ph' → J ne0 D (phs.set i ph') s held := by
    intro ph' h1 h2 h3 hm h4
    exact hJ.step_same hi _ s.ne held (Nat.le_refl _) (fun x K h => by simp [Exc] at h) h4
      (fun _ _ _ _ _ _ h => h) (fun k hk => by simp [h2] at hk) (fun x hx => by simp [h3] at hx)
      (fun x hx => by simp [hm] at hx)
  cases hv : s.kv (.node n) with
  | none => exact ⟨.fin (.nodeNotFound n), by simp [Ph.prog, updateNodePut], key _ (by simp [Exc]) rfl rfl rfl trivial⟩
  | some val =>
    cases val with
    | node l v0 => exact ⟨.unP n (.node ((lab.map fun x => [x]).getD l) v), by simp [Ph.prog, updateNodePut], key _ (by simp [Exc]) rfl rfl rfl (by simp [Local, nodeEx, hv])⟩
    | edge r => exact ⟨.unP n (.node ((lab.map fun x => [x]).getD []) v), by simp [Ph.prog, updateNodePut], key _ (by simp [Exc]) rfl rfl rfl (by simp [Local, nodeEx, hv])⟩
    | list l => exact ⟨.unP n (.node ((lab.map fun x => [x]).getD []) v), by simp [Ph.prog, updateNodePut], key _ (by simp [Exc]) rfl rfl rfl (by simp [Local, nodeEx, hv])⟩

theorem step_unP {ne0 : Nat} {D : Nat → Prop} {phs : List Ph} {s : St} {held : List Key} {i : Nat} {n : Nat} {val : Val}
    (hJ : J ne0 D phs s held) (hi : phs[i]? = some (.unP n val)) :
    ∃ ph', ((Ph.unP n val).prog.step s).1 = ph'.prog ∧
      J ne0 D (phs.set i ph') ((Ph.unP n val).prog.step s).2 held := by
  have hn : nodeEx s.kv n = true := hJ.loc i _ hi
  refine ⟨.fin .ok, by simp only [Ph.prog, Prog.step], ?_⟩
  simp only [Ph.prog, Prog.step]
  refine hJ.step_putNode hi n val .ok ?_ ?_ (fun x K h => by simp [Exc] at h)
  · rcases Nat.lt_or_ge s.nn n with h | h
    · rw [hJ.freshN n h] at hn; cases hn
    · exact h
  · intro j ph2 hji hj hm
    have : nodeEx s.kv n = false := by
      have hl := hJ.loc j ph2 hj
      cases ph2 <;> simp [Ph.makes] at hm <;> subst hm <;> exact hl
    rw [hn] at this; cases this

theorem step_ueA {ne0 : Nat} {D : Nat → Prop} {phs : List Ph} {s : St} {held : List Key} {i : Nat} {e v : Nat}
    (hJ : J ne0 D phs s held) (hi : phs[i]? = some (.ueA e v)) :
    ∃ ph', ((Ph.ueA e v).prog.step s).1 = ph'.prog ∧
      J ne0 D (phs.set i ph') ((Ph.ueA e v).prog.step s).2 held := by
  have hl : e ≤ ne0 ∧ ¬ D e := hJ.loc i _ hi
  simp only [Ph.prog, updateEdgeProg, Prog.step]
  cases hv : edgeOf (s.kv (.edge e)) with
  | none =>
    refine ⟨.fin (.edgeNotFound e), by simp [Ph.prog], ?_⟩
    exact hJ.step_same hi _ s.ne held (Nat.le_refl _) (fun x K h => by simp [Exc] at h) trivial
      (fun _ _ _ _ _ _ h => h) (fun k hk => by simp [Ph.holds] at hk) (fun x hx => by simp [Ph.creates] at hx)
  | some r =>
    refine ⟨.ueB e v, by simp [Ph.prog], ?_⟩
    exact hJ.step_same hi _ s.ne held (Nat.le_refl _) (fun x K h => by simp [Exc] at h) hl
      (fun _ _ _ _ _ _ h => h) (fun k hk => by simp [Ph.holds] at hk) (fun x hx => by simp [Ph.creates] at hx)

theorem step_ueB {ne0 : Nat} {D : Nat → Prop} {phs : List Ph} {s : St} {held : List Key} {i : Nat} {e v : Nat}
    (hJ : J ne0 D phs s held) (hi : phs[i]? = some (.ueB e v)) :
    ∃ ph', ((Ph.ueB e v).prog.step s).1 = ph'.prog ∧
      J ne0 D (phs.set i ph') ((Ph.ueB e v).prog.step s).2 held := by
  obtain ⟨hl, hD⟩ : e ≤ ne0 ∧ ¬ D e := hJ.loc i _ hi
  simp only [Ph.prog, updateEdgeSecond, Prog.step]
  have key : ∀ ph' : Ph, (∀ x K, ¬ Exc ph' x K) → ph'.holds = none → ph'.creates = none → ph'.makes = none →
      Local ne0 D s.kv s.ne held ph' → J ne0 D (phs.set i ph') s held := by
    intro ph' h1 h2 h3 hm h4
    exact hJ.step_same hi _ s.ne held (Nat.le_refl _) (fun x K h => by simp [Exc] at h) h4
      (fun _ _ _ _ _ _ h => h) (fun k hk => by simp [h2] at hk) (fun x hx => by simp [h3] at hx)
      (fun x hx => by simp [hm] at hx)
  cases hv : s.kv (.edge e) with
  | none => exact ⟨.fin (.edgeNotFound e), by simp [Ph.prog, updateEdgePut], key _ (by simp [Exc]) rfl rfl rfl trivial⟩
  | some val =>
    cases val with
    | edge r =>
      refine ⟨.ueP e r v, by simp [Ph.prog, updateEdgePut], key _ (by simp [Exc]) rfl rfl rfl ?_⟩
      exact ⟨hl, hD, r, by simp [edgeAt, hv], rfl, rfl, rfl⟩
    | node l v0 =>
      refine ⟨.ueO e (.node l v0), by simp [Ph.prog, updateEdgePut], key _ (by simp [Exc]) rfl rfl rfl ?_⟩
      exact ⟨hl, rfl, by simp [edgeAt, hv, edgeOf]⟩
    | list l =>
      refine ⟨.ueO e (.list l), by simp [Ph.prog, updateEdgePut], key _ (by simp [Exc]) rfl rfl rfl ?_⟩
      exact ⟨hl, rfl, by simp [edgeAt, hv, edgeOf]⟩

theorem step_ueP {ne0 : Nat} {D : Nat → Prop} {phs : List Ph} {s : St} {held : List Key} {i : Nat} {e : Nat}
    {r : EdgeRec} {v : Nat}
    (hJ : J ne0 D phs s held) (hi : phs[i]? = some (.ueP e r v)) :
    ∃ ph', ((Ph.ueP e r v).prog.step s).1 = ph'.prog ∧
      J ne0 D (phs.set i ph') ((Ph.ueP e r v).prog.step s).2 held := by
  obtain ⟨hl, hD, r', hr', hs⟩ : e ≤ ne0 ∧ ¬ D e ∧ ∃ r', edgeAt s.kv e = some r' ∧ sameShape r' r := hJ.loc i _ hi
  have hs' : sameShape { r with ver := v } r' := ⟨hs.1.symm, hs.2.1.symm, hs.2.2.symm⟩
  refine ⟨.fin .ok, by simp only [Ph.prog, Prog.step], ?_⟩
  simp only [Ph.prog, Prog.step]
  apply hJ.step hi _ { s with kv := upd s.kv (.edge e) (some (.edge { r with ver := v })) } held (Nat.le_refl _) (Nat.le_refl _)
  · intro y hy
    have : y ≠ e := by have := hJ.ne_ge; simp at hy; omega
    simp [this]; exact hJ.fresh y hy
  · intro n hn; simpa using hJ.freshN n hn
  · intro y ry hy
    simp only [edgeAt_upd, nodeEx_upd, L_upd_edge] at hy ⊢
    by_cases hye : y = e
    · subst hye; simp at hy; subst hy
      obtain ⟨a1, a2, a3⟩ := hJ.e1 y r' hr'
      refine ⟨by simpa [← hs.1] using a1, by simpa [← hs.2.1] using a2, fun K hK => ?_⟩
      rw [req_shape hs'] at hK
      rcases a3 K hK with h | ⟨j, ph2, hj, he⟩
      · exact Or.inl h
      · by_cases hji : j = i
        · subst hji; rw [hi] at hj; cases hj; simp [Exc] at he
        · exact Or.inr (Or.inr ⟨j, ph2, hji, hj, he⟩)
    · simp [hye] at hy
      obtain ⟨a1, a2, a3⟩ := hJ.e1 y ry hy
      refine ⟨by simpa using a1, by simpa using a2, fun K hK => ?_⟩
      rcases a3 K hK with h | ⟨j, ph2, hj, he⟩
      · exact Or.inl h
      · by_cases hji : j = i
        · subst hji; rw [hi] at hj; cases hj; simp [Exc] at he
        · exact Or.inr (Or.inr ⟨j, ph2, hji, hj, he⟩)
  · intro K z hz
    simp only [L_upd_edge] at hz
    obtain ⟨rz, hrz, hK⟩ := hJ.e2 K z hz
    by_cases hze : z = e
    · subst hze; rw [hr'] at hrz; cases hrz
      exact ⟨{ r with ver := v }, by simp, by rw [req_shape hs']; exact hK⟩
    · exact ⟨rz, by simp [hze, hrz], hK⟩
  · intro K; simp only [L_upd_edge]; exact hJ.e3 K
  · trivial
  · intro j ph2 hji hj
    refine ⟨Nat.le_refl _, fun n h => by simpa using h, fun _ _ h => h, fun _ _ => by simp, ?_, ?_, ?_,
      fun _ _ h => by simpa using h⟩
    · intro y hy
      have : y ≠ e := by have := ((hJ.loc j ph2 hj).creates_le hy).1; omega
      simp [this]
    · intro e2 he2
      have : e2 ≠ e := by
        rintro rfl
        rcases (hJ.loc j ph2 hj).deletes_D he2 with h | h
        · exact hD h
        · rw [hr'] at h; cases h
      exact ⟨fun r2 hr2 => by simpa [this] using hr2, fun K h => by simpa using h⟩
    · intro e2 he2 r2 hr2
      by_cases h2 : e2 = e
      · subst h2; rw [hr'] at hr2; cases hr2
        exact ⟨_, by simp, hs'⟩
      · exact ⟨r2, by simpa [h2] using hr2, rfl, rfl, rfl⟩
  · intro k hk; simp [Ph.holds] at hk
  · intro y hy; simp [Ph.creates] at hy
  · intro y hy; simp [Ph.makes] at hy

theorem step_ueO {ne0 : Nat} {D : Nat → Prop} {phs : List Ph} {s : St} {held : List Key} {i : Nat} {e : Nat} {other : Val}
    (hJ : J ne0 D phs s held) (hi : phs[i]? = some (.ueO e other)) :
    ∃ ph', ((Ph.ueO e other).prog.step s).1 = ph'.prog ∧
      J ne0 D (phs.set i ph') ((Ph.ueO e other).prog.step s).2 held := by
  obtain ⟨hl, ho, hn⟩ : e ≤ ne0 ∧ edgeOf (some other) = none ∧ edgeAt s.kv e = none := hJ.loc i _ hi
  refine ⟨.fin .ok, by simp only [Ph.prog, Prog.step], ?_⟩
  simp only [Ph.prog, Prog.step]
  have hE : ∀ y, edgeAt (upd s.kv (.edge e) (some other)) y = edgeAt s.kv y := by
    intro y; simp only [edgeAt_upd]; split
    · rename_i h; cases h; rw [ho, hn]
    · rfl
  apply hJ.step hi _ { s with kv := upd s.kv (.edge e) (some other) } held (Nat.le_refl _) (Nat.le_refl _)
  · intro y hy; simp only [hE]; exact hJ.fresh y hy
  · intro n hn; simpa using hJ.freshN n hn
  · intro y ry hy
    simp only [hE, nodeEx_upd, L_upd_edge] at hy ⊢
    obtain ⟨a1, a2, a3⟩ := hJ.e1 y ry hy
    refine ⟨by simpa using a1, by simpa using a2, fun K hK => ?_⟩
    rcases a3 K hK with h | ⟨j, ph2, hj, he⟩
    · exact Or.inl h
    · by_cases hji : j = i
      · subst hji; rw [hi] at hj; cases hj; simp [Exc] at he
      · exact Or.inr (Or.inr ⟨j, ph2, hji, hj, he⟩)
  · intro K z hz
    simp only [L_upd_edge, hE] at hz ⊢
    exact hJ.e2 K z hz
  · intro K; simp only [L_upd_edge]; exact hJ.e3 K
  · trivial
  · intro j ph2 hji hj
    exact ⟨Nat.le_refl _, fun n h => by simpa using h, fun _ _ h => h, fun _ _ => by simp, fun y _ => hE y,
      fun e2 _ => ⟨fun r2 hr2 => by rw [hE] at hr2; exact hr2, fun K h => by simpa using h⟩,
      fun e2 _ r2 hr2 => ⟨r2, by rw [hE]; exact hr2, rfl, rfl, rfl⟩, fun _ _ h => by simpa using h⟩
  · intro k hk; simp [Ph.holds] at hk
  · intro y hy; simp [Ph.creates] at hy
  · intro y hy; simp [Ph.makes] at hy

/-- every store call of a thread in phase `ph` keeps `J` -/
theorem store_pres {ne0 : Nat} {D : Nat → Prop} {phs : List Ph} {s : St} {held : List Key} {i : Nat} {ph : Ph}
    (hJ : J ne0 D phs s held) (hi : phs[i]? = some ph) (hlab : ph.prog.label.isSome = true) :
    ∃ ph', (ph.prog.step s).1 = ph'.prog ∧ J ne0 D (phs.set i ph') (ph.prog.step s).2 held := by
  cases ph with
  | fin res => simp [Ph.prog, Prog.label] at hlab
  | ceA a b d ty v => exact step_ceA hJ hi
  | ceB a b d ty v => exact step_ceB hJ hi
  | ceAl a b d ty v => simp [Ph.prog, createEdgeAlloc, Prog.label] at hlab
  | pre x a b d ty v => exact step_pre hJ hi
  | add x r k ks st =>
    cases st with
    | acq => simp [Ph.prog, addAt, addTo, Prog.label] at hlab
    | get => exact step_add_get hJ hi
    | put l => exact step_add_put hJ hi
    | rel => simp [Ph.prog, addAt, Prog.label] at hlab
  | deA e => exact step_deA hJ hi
  | rm e r k ks st =>
    cases st with
    | acq => simp [Ph.prog, rmAt, rmFrom, Prog.label] at hlab
    | get => exact step_rm_get hJ hi
    | put l => exact step_rm_put hJ hi
    | rel => simp [Ph.prog, rmAt, Prog.label] at hlab
  | drec e r => exact step_drec hJ hi
  | cnA l v => simp [Ph.prog, createNodeProg, Prog.label] at hlab
  | cnP1 id l v => exact step_cnP1 hJ hi
  | cnP2 id l v => exact step_cnP2 hJ hi
  | cnP3 id l v => exact step_cnP3 hJ hi
  | alA n l => exact step_alA hJ hi
  | rlA n l => exact step_rlA hJ hi
  | lbB n labs => exact step_lbB hJ hi
  | unA n lab v => exact step_unA hJ hi
  | unB n lab v => exact step_unB hJ hi
  | unP n val => exact step_unP hJ hi
  | ueA e v => exact step_ueA hJ hi
  | ueB e v => exact step_ueB hJ hi
  | ueP e r v => exact step_ueP hJ hi
  | ueO e other => exact step_ueO hJ hi

/-! ### the silent steps -/

/-- the operations of `adjacency_rmw_atomic`: `create_edge` (any arguments) and `delete_edge` of an
    edge id handed out before the concurrent phase -/
def Op.adm (ne0 : Nat) : Op → Prop
  | .createEdge .. => True
  | .deleteEdge e => e ≤ ne0
  | _ => False

/-- the operations of `quiescent_wf_partial`: also `update_node`, and `update_edge` of an id handed
    out before the concurrent phase that no thread deletes (`D` = the ids that may be deleted) -/
def Op.adm2 (ne0 : Nat) (D : Nat → Prop) : Op → Prop
  | .createEdge .. => True
  | .createNode .. => True
  | .deleteEdge e => e ≤ ne0 ∧ D e
  | .updateNode .. => True
  | .addLabel .. => True
  | .removeLabel .. => True
  | .updateEdge e _ => e ≤ ne0 ∧ ¬ D e
  | _ => False

theorem Op.adm.adm2 {ne0 : Nat} {op : Op} (h : op.adm ne0) : op.adm2 ne0 (fun _ => True) := by
  cases op <;> simp [Op.adm] at h <;> simp [Op.adm2, h]

def phOf : Op → Ph
  | .createEdge a b d ty v => .ceA a b d ty v
  | .createNode l v => .cnA l v
  | .deleteEdge e => .deA e
  | .updateNode n lab v => .unA n lab v
  | .addLabel n l => .alA n l
  | .removeLabel n l => .rlA n l
  | .updateEdge e v => .ueA e v
  | _ => .fin .ok

theorem phOf_prog {ne0 : Nat} {D : Nat → Prop} {op : Op} (h : op.adm2 ne0 D) : op.prog = (phOf op).prog := by
  cases op <;> simp [Op.adm2] at h <;> rfl

theorem phOf_local {ne0 : Nat} {D : Nat → Prop} {op : Op} (h : op.adm2 ne0 D) (m : KV) (ne : Nat) (held : List Key) :
    Local ne0 D m ne held (phOf op) := by
  cases op <;> simp [Op.adm2] at h <;> simp [phOf, Local, h] <;> exact h

theorem phOf_plain (op : Op) : (phOf op).holds = none ∧ (phOf op).creates = none ∧ (phOf op).makes = none ∧
    ∀ x K, ¬ Exc (phOf op) x K := by
  cases op <;> simp [phOf, Ph.holds, Ph.creates, Ph.makes, Exc]

theorem mem_filter_ne {held : List Key} {k k2 : Key} (h : k2 ∈ held) (hne : k2 ≠ k) :
    k2 ∈ held.filter (fun x => x != k) := by
  simp [List.mem_filter, h, hne]

theorem silent_pres {ne0 : Nat} {D : Nat → Prop} {phs : List Ph} {s : St} {held : List Key} {i : Nat} {ph : Ph}
    (hJ : J ne0 D phs s held) (hi : phs[i]? = some ph) (rest : List Op) (hadm : ∀ op ∈ rest, op.adm2 ne0 D)
    (take : Bool) (rs : List Res) (c' : Cfg)
    (h : Cfg.silent Op.prog take ⟨ph.prog, rest, rs, s, held⟩ = some c') :
    ∃ ph', c'.p = ph'.prog ∧ (∀ op ∈ c'.rest, op.adm2 ne0 D) ∧ J ne0 D (phs.set i ph') c'.s c'.held := by
  cases ph with
  | fin res =>
    simp only [Ph.prog, Cfg.silent] at h
    cases rest with
    | nil => simp at h
    | cons op rest' =>
      simp at h; subst h
      have ha := hadm op (by simp)
      obtain ⟨p1, p2, pm, p3⟩ := phOf_plain op
      refine ⟨phOf op, phOf_prog ha, fun o ho => hadm o (by simp [ho]), ?_⟩
      exact hJ.step_same hi _ s.ne held (Nat.le_refl _) (fun x K h => by simp [Exc] at h)
        (phOf_local ha _ _ _) (fun _ _ _ _ _ _ h => h) (fun k hk => by simp [p1] at hk) (fun x hx => by simp [p2] at hx)
        (fun x hx => by simp [pm] at hx)
  | ceA a b d ty v => simp [Ph.prog, createEdgeProg, Cfg.silent] at h
  | ceB a b d ty v => simp [Ph.prog, createEdgeCheckB, Cfg.silent] at h
  | ceAl a b d ty v =>
    obtain ⟨ha, hb⟩ : nodeEx s.kv a = true ∧ nodeEx s.kv b = true := hJ.loc i _ hi
    simp only [Ph.prog, createEdgeAlloc, Cfg.silent] at h
    simp at h; subst h
    refine ⟨.pre (s.ne + 1) a b d ty v, rfl, hadm, ?_⟩
    refine hJ.step_same hi _ (s.ne + 1) held (Nat.le_succ _) (fun x K h => by simp [Exc] at h) ?_
      (fun _ _ _ _ _ _ h => h) (fun k hk => by simp [Ph.holds] at hk)
      (fun x hx => by simp [Ph.creates] at hx; subst hx; exact Or.inr (Nat.lt_succ_self _))
    simp only [Local]
    exact ⟨hJ.fresh _ (Nat.lt_succ_self _), by have := hJ.ne_ge; omega, Nat.le_refl _, ha, hb⟩
  | pre x a b d ty v => simp [Ph.prog, createEdgeFrom, Cfg.silent] at h
  | add x r k ks st =>
    obtain ⟨h1, h2, h3, h4, h5⟩ : edgeAt s.kv x = some r ∧ ne0 < x ∧ x ≤ s.ne ∧ (∀ K ∈ k :: ks, K ∈ req r) ∧
        stageOK s.kv held k st := hJ.loc i _ hi
    cases st with
    | acq =>
      simp only [Ph.prog, addAt, addTo, Cfg.silent] at h
      split at h
      · simp at h
      · rename_i hc
        simp at h; subst h
        simp at hc
        refine ⟨.add x r k ks .get, by simp only [Ph.prog, addAt], hadm, ?_⟩
        refine hJ.step_same hi _ s.ne (k :: held) (Nat.le_refl _) (fun y K h => by simpa [Exc, pend] using h) ?_
          (fun _ _ _ _ _ _ h => by simp [h]) (fun k' hk => by simp [Ph.holds, Stage.holding] at hk; subst hk; exact Or.inr hc.2)
          (fun y hy => by simp [Ph.creates] at hy ⊢; exact Or.inl hy)
        simp only [Local, stageOK]
        exact ⟨h1, h2, h3, h4, by simp⟩
    | get => simp [Ph.prog, addAt, Cfg.silent] at h
    | put l => simp [Ph.prog, addAt, Cfg.silent] at h
    | rel =>
      simp only [Ph.prog, addAt, Cfg.silent] at h
      simp at h; subst h
      have hheld : ∀ (j : Nat) (ph2 : Ph), j ≠ i → phs[j]? = some ph2 → ∀ k2, ph2.holds = some k2 → k2 ∈ held →
          k2 ∈ held.filter (fun x => x != k) := by
        intro j ph2 hji hj k2 hk2 hm
        apply mem_filter_ne hm
        rintro rfl
        exact hJ.excl j i ph2 _ hji hj hi k2 hk2 (by simp [Ph.holds, Stage.holding])
      cases ks with
      | nil =>
        refine ⟨.fin (.id x), by simp only [Ph.prog, addSeq], hadm, ?_⟩
        exact hJ.step_same hi _ s.ne _ (Nat.le_refl _) (fun y K h => by simp [Exc, pend] at h) trivial
          hheld (fun k' hk => by simp [Ph.holds] at hk) (fun y hy => by simp [Ph.creates] at hy)
      | cons k' ks' =>
        refine ⟨.add x r k' ks' .acq, by simp only [Ph.prog, addSeq, addAt], hadm, ?_⟩
        refine hJ.step_same hi _ s.ne _ (Nat.le_refl _) (fun y K h => by simpa [Exc, pend] using h) ?_
          hheld (fun k' hk => by simp [Ph.holds, Stage.holding] at hk) (fun y hy => by simp [Ph.creates] at hy ⊢; exact Or.inl hy)
        simp only [Local, stageOK, and_true]
        exact ⟨h1, h2, h3, fun K hK => h4 K (by simp at hK ⊢; exact Or.inr hK)⟩
  | deA e => simp [Ph.prog, deleteEdgeProg, Cfg.silent] at h
  | rm e r k ks st =>
    obtain ⟨h1, hD, h2, h3, h4, h5⟩ : e ≤ ne0 ∧ D e ∧ (∀ r', edgeAt s.kv e = some r' → r' = r) ∧ (∀ K ∈ k :: ks, K ∈ req r) ∧
        (∀ K ∈ req r, K ∉ pend k ks st → e ∉ L s.kv K) ∧ stageOK s.kv held k st := hJ.loc i _ hi
    cases st with
    | acq =>
      simp only [Ph.prog, rmAt, rmFrom, Cfg.silent] at h
      split at h
      · simp at h
      · rename_i hc
        simp at h; subst h
        simp at hc
        refine ⟨.rm e r k ks .get, rfl, hadm, ?_⟩
        refine hJ.step_same hi _ s.ne (k :: held) (Nat.le_refl _) (fun y K h => by simpa [Exc] using h) ?_
          (fun _ _ _ _ _ _ h => by simp [h]) (fun k' hk => by simp [Ph.holds, Stage.holding] at hk; subst hk; exact Or.inr hc.2)
          (fun y hy => by simp [Ph.creates] at hy)
        simp only [Local, stageOK]
        exact ⟨h1, hD, h2, h3, h4, by simp⟩
    | get => simp [Ph.prog, rmAt, Cfg.silent] at h
    | put l => simp [Ph.prog, rmAt, Cfg.silent] at h
    | rel =>
      simp only [Ph.prog, rmAt, Cfg.silent] at h
      simp at h; subst h
      have hheld : ∀ (j : Nat) (ph2 : Ph), j ≠ i → phs[j]? = some ph2 → ∀ k2, ph2.holds = some k2 → k2 ∈ held →
          k2 ∈ held.filter (fun x => x != k) := by
        intro j ph2 hji hj k2 hk2 hm
        apply mem_filter_ne hm
        rintro rfl
        exact hJ.excl j i ph2 _ hji hj hi k2 hk2 (by simp [Ph.holds, Stage.holding])
      simp only [pend] at h4
      cases ks with
      | nil =>
        refine ⟨.drec e r, by simp only [Ph.prog, rmSeq], hadm, ?_⟩
        refine hJ.step_same hi _ s.ne _ (Nat.le_refl _) (fun y K h => by simpa [Exc] using h) ?_
          hheld (fun k' hk => by simp [Ph.holds] at hk) (fun y hy => by simp [Ph.creates] at hy)
        simp only [Local]
        exact ⟨h1, hD, h2, fun K hK => h4 K hK (by simp)⟩
      | cons k' ks' =>
        refine ⟨.rm e r k' ks' .acq, by simp only [Ph.prog, rmSeq, rmAt], hadm, ?_⟩
        refine hJ.step_same hi _ s.ne _ (Nat.le_refl _) (fun y K h => by simpa [Exc] using h) ?_
          hheld (fun k' hk => by simp [Ph.holds, Stage.holding] at hk) (fun y hy => by simp [Ph.creates] at hy)
        simp only [Local, stageOK, pend, and_true]
        exact ⟨h1, hD, h2, fun K hK => h3 K (by simp at hK ⊢; exact Or.inr hK), h4⟩
  | drec e r => simp [Ph.prog, delTail, Cfg.silent] at h
  | cnA l v =>
    simp only [Ph.prog, createNodeProg, Cfg.silent] at h
    simp at h; subst h
    refine ⟨.cnP1 (s.nn + 1) l v, rfl, hadm, ?_⟩
    exact hJ.step_cnt hi _ s.ne (s.nn + 1) held (Nat.le_refl _) (Nat.le_succ _) (fun x K h => by simp [Exc] at h)
      (hJ.freshN _ (Nat.lt_succ_self _))
      (fun _ _ _ _ _ _ h => h) (fun k hk => by simp [Ph.holds] at hk) (fun x hx => by simp [Ph.creates] at hx)
      (fun x hx => by simp [Ph.makes] at hx; subst hx; exact Or.inr ⟨Nat.lt_succ_self _, Nat.le_refl _⟩)
  | cnP1 id l v => simp [Ph.prog, createNodeFrom, Cfg.silent] at h
  | cnP2 id l v => simp [Ph.prog, Cfg.silent] at h
  | cnP3 id l v => simp [Ph.prog, Cfg.silent] at h
  | alA n l => simp [Ph.prog, addLabelProg, Cfg.silent] at h
  | rlA n l => simp [Ph.prog, removeLabelProg, Cfg.silent] at h
  | lbB n labs => simp [Ph.prog, Cfg.silent] at h
  | unA n lab v => simp [Ph.prog, updateNodeProg, Cfg.silent] at h
  | unB n lab v => simp [Ph.prog, updateNodeSecond, Cfg.silent] at h
  | unP n val => simp [Ph.prog, Cfg.silent] at h
  | ueA e v => simp [Ph.prog, updateEdgeProg, Cfg.silent] at h
  | ueB e v => simp [Ph.prog, updateEdgeSecond, Cfg.silent] at h
  | ueP e r v => simp [Ph.prog, Cfg.silent] at h
  | ueO e other => simp [Ph.prog, Cfg.silent] at h

/-! ### grants, schedules -/

theorem set_self {phs : List Ph} {i : Nat} {ph : Ph} (hi : phs[i]? = some ph) : phs.set i ph = phs := by
  apply List.ext_getElem?
  intro j
  rw [get_set hi]
  split
  · rename_i h; subst h; exact hi.symm
  · rfl

theorem settle_pres {ne0 : Nat} {D : Nat → Prop} {i : Nat} (take : Bool) (fuel : Nat) :
    ∀ (phs : List Ph) (ph : Ph) (rest : List Op) (rs : List Res) (s : St) (held : List Key),
    J ne0 D phs s held → phs[i]? = some ph → (∀ op ∈ rest, op.adm2 ne0 D) →
    ∃ ph', (settle Op.prog take fuel ⟨ph.prog, rest, rs, s, held⟩).p = ph'.prog ∧
      (∀ op ∈ (settle Op.prog take fuel ⟨ph.prog, rest, rs, s, held⟩).rest, op.adm2 ne0 D) ∧
      J ne0 D (phs.set i ph') (settle Op.prog take fuel ⟨ph.prog, rest, rs, s, held⟩).s
        (settle Op.prog take fuel ⟨ph.prog, rest, rs, s, held⟩).held := by
  induction fuel with
  | zero =>
    intro phs ph rest rs s held hJ hi hadm
    exact ⟨ph, rfl, hadm, by rw [set_self hi]; exact hJ⟩
  | succ fuel ih =>
    intro phs ph rest rs s held hJ hi hadm
    simp only [settle]
    cases h : Cfg.silent Op.prog take ⟨ph.prog, rest, rs, s, held⟩ with
    | none => exact ⟨ph, rfl, hadm, by rw [set_self hi]; exact hJ⟩
    | some c' =>
      obtain ⟨ph1, hp, hadm', hJ'⟩ := silent_pres hJ hi rest hadm take rs c' h
      have hc : c' = ⟨ph1.prog, c'.rest, c'.rs, c'.s, c'.held⟩ := by rw [← hp]
      simp only
      rw [hc]
      have hi' : (phs.set i ph1)[i]? = some ph1 := by rw [get_set hi]; simp
      obtain ⟨ph2, q1, q2, q3⟩ := ih (phs.set i ph1) ph1 c'.rest c'.rs c'.s c'.held hJ' hi' hadm'
      exact ⟨ph2, q1, q2, by rw [List.set_set] at q3; exact q3⟩

/-- thread `t` is in phase `ph` and has only admissible operations left -/
def TMatch (ne0 : Nat) (D : Nat → Prop) (t : Thread) (ph : Ph) : Prop :=
  (t.cur = some ph.prog ∨ (t.cur = none ∧ ∃ r, ph = .fin r)) ∧ ∀ op ∈ t.rest, op.adm2 ne0 D

theorem turn_pres {ne0 : Nat} {D : Nat → Prop} {phs : List Ph} {s : St} {held : List Key} {i : Nat} {ph : Ph} {t : Thread}
    (hJ : J ne0 D phs s held) (hi : phs[i]? = some ph) (hm : TMatch ne0 D t ph) :
    ∃ ph', TMatch ne0 D (t.turn Op.prog s held).1 ph' ∧
      J ne0 D (phs.set i ph') (t.turn Op.prog s held).2.1 (t.turn Op.prog s held).2.2 := by
  obtain ⟨hcur, hadm⟩ := hm
  rcases hcur with hcur | ⟨hcur, r, rfl⟩
  · simp only [Thread.turn, hcur]
    obtain ⟨ph0, p0, a0, J0⟩ := settle_pres (i := i) true SETTLE_FUEL phs ph t.rest t.results s held hJ hi hadm
    generalize settle Op.prog true SETTLE_FUEL ⟨ph.prog, t.rest, t.results, s, held⟩ = c0 at p0 a0 J0
    have hi0 : (phs.set i ph0)[i]? = some ph0 := by rw [get_set hi]; simp
    cases hl : c0.p.label with
    | none => exact ⟨ph0, ⟨Or.inl (by simp [p0]), a0⟩, J0⟩
    | some lab =>
      simp only
      rw [p0] at hl ⊢
      obtain ⟨ph1, p1, J1⟩ := store_pres J0 hi0 (by simp [hl])
      rw [List.set_set] at J1
      have hi1 : (phs.set i ph1)[i]? = some ph1 := by rw [get_set hi]; simp
      rw [p1]
      obtain ⟨ph2, p2, a2, J2⟩ := settle_pres (i := i) false SETTLE_FUEL (phs.set i ph1) ph1 c0.rest c0.rs
        (ph0.prog.step c0.s).2 c0.held J1 hi1 a0
      rw [List.set_set] at J2
      exact ⟨ph2, ⟨Or.inl (by simp [p2]), a2⟩, J2⟩
  · simp only [Thread.turn, hcur]
    cases hr : t.rest with
    | nil =>
      refine ⟨.fin .ok, ⟨Or.inl rfl, by simp [hr]⟩, ?_⟩
      exact hJ.step_same hi _ s.ne held (Nat.le_refl _) (fun x K h => by simp [Exc] at h) trivial
        (fun _ _ _ _ _ _ h => h) (fun k hk => by simp [Ph.holds] at hk) (fun x hx => by simp [Ph.creates] at hx)
    | cons op rest =>
      simp only
      have ha := hadm op (by simp [hr])
      obtain ⟨q1, q2, qm, q3⟩ := phOf_plain op
      have J1 : J ne0 D (phs.set i (phOf op)) s held :=
        hJ.step_same hi _ s.ne held (Nat.le_refl _) (fun x K h => by simp [Exc] at h)
          (phOf_local ha _ _ _) (fun _ _ _ _ _ _ h => h) (fun k hk => by simp [q1] at hk) (fun x hx => by simp [q2] at hx)
          (fun x hx => by simp [qm] at hx)
      have hi1 : (phs.set i (phOf op))[i]? = some (phOf op) := by rw [get_set hi]; simp
      rw [phOf_prog ha]
      obtain ⟨ph2, p2, a2, J2⟩ := settle_pres (i := i) false SETTLE_FUEL (phs.set i (phOf op)) (phOf op) rest t.results
        s held J1 hi1 (fun o ho => hadm o (by simp [hr, ho]))
      rw [List.set_set] at J2
      exact ⟨ph2, ⟨Or.inl (by simp [p2]), a2⟩, J2⟩

theorem setAt_eq_set {α : Type} (l : List α) (i : Nat) (a : α) : setAt l i a = l.set i a := by
  induction l generalizing i with
  | nil => rfl
  | cons x xs ih => cases i <;> simp [setAt, ih]

def Matches (ne0 : Nat) (D : Nat → Prop) (ts : List Thread) (phs : List Ph) : Prop :=
  ts.length = phs.length ∧ ∀ (i : Nat) (t : Thread) (ph : Ph), ts[i]? = some t → phs[i]? = some ph → TMatch ne0 D t ph

theorem runThreads_pres {ne0 : Nat} {D : Nat → Prop} (sched : List Nat) :
    ∀ (ts : List Thread) (phs : List Ph) (s : St) (held : List Key), Matches ne0 D ts phs → J ne0 D phs s held →
    ∃ phs', Matches ne0 D (runThreads Op.prog ts sched s held).1 phs' ∧
      J ne0 D phs' (runThreads Op.prog ts sched s held).2.1 (runThreads Op.prog ts sched s held).2.2 := by
  induction sched with
  | nil => intro ts phs s held hm hJ; exact ⟨phs, hm, hJ⟩
  | cons i sched ih =>
    intro ts phs s held hm hJ
    simp only [runThreads]
    cases hti : ts[i]? with
    | none => exact ih ts phs s held hm hJ
    | some t =>
      simp only
      have hlt : i < ts.length := by
        rcases Nat.lt_or_ge i ts.length with h | h
        · exact h
        · rw [List.getElem?_eq_none h] at hti; cases hti
      have hlt' : i < phs.length := hm.1 ▸ hlt
      have hpi : phs[i]? = some phs[i] := List.getElem?_eq_getElem hlt'
      obtain ⟨ph', hm', hJ'⟩ := turn_pres hJ hpi (hm.2 i t _ hti hpi)
      apply ih _ (phs.set i ph') _ _ ?_ hJ'
      rw [setAt_eq_set]
      refine ⟨by simp [hm.1], ?_⟩
      intro j u ph2 hu hp
      rw [get_set hpi] at hp
      rw [List.getElem?_set] at hu
      by_cases hji : j = i
      · subst hji; simp [hlt] at hu hp; subst hu; subst hp; exact hm'
      · have : ¬ i = j := fun h => hji h.symm
        simp [hji, this] at hu hp
        exact hm.2 j u ph2 hu hp

/-! ### the ends: the invariant holds initially, and gives `WF` at quiescence -/

theorem J_init {s0 : St} (h : Inv s0) (D : Nat → Prop) (n : Nat) :
    J s0.ne D (List.replicate n (.fin .ok)) s0 [] := by
  have hfin : ∀ (j : Nat) (ph : Ph), (List.replicate n (Ph.fin .ok))[j]? = some ph → ph = .fin .ok := by
    intro j ph hj
    rw [List.getElem?_replicate] at hj
    split at hj
    · cases hj; rfl
    · cases hj
  refine ⟨Nat.le_refl _, h.freshE, h.freshN, ?_, ?_, ?_, ?_, ?_, ?_, ?_, ?_⟩
  · intro x r hr
    obtain ⟨a1, a2, a3, a4, a5⟩ := h.wf.edge_listed x r hr
    refine ⟨a1, a2, fun K hK => Or.inl ?_⟩
    unfold req at hK
    cases hd : r.directed
    · simp [hd] at hK
      rcases hK with rfl | rfl | rfl | rfl
      · exact a3
      · exact a4
      · exact (a5 hd).1
      · exact (a5 hd).2
    · simp [hd] at hK
      rcases hK with rfl | rfl
      · exact a3
      · exact a4
  · intro K x hx
    cases K with
    | out n =>
      obtain ⟨r, hr, ht⟩ := h.wf.out_sound n x hx
      refine ⟨r, hr, ?_⟩
      unfold req; rcases ht with rfl | ⟨hd, rfl⟩
      · simp
      · simp [hd]
    | inn n =>
      obtain ⟨r, hr, ht⟩ := h.wf.in_sound n x hx
      refine ⟨r, hr, ?_⟩
      unfold req; rcases ht with rfl | ⟨hd, rfl⟩
      · simp
      · simp [hd]
    | node n => simp [L] at hx
    | edge e => simp [L] at hx
  · intro K
    cases K with
    | out n => exact h.wf.out_nodup n
    | inn n => exact h.wf.in_nodup n
    | node n => simp [L]
    | edge e => simp [L]
  · intro j ph hj; rw [hfin j ph hj]; trivial
  · intro a b pa pb _ ha _ k hk; rw [hfin a pa ha] at hk; simp [Ph.holds] at hk
  · intro a b pa pb _ ha _ x hx; rw [hfin a pa ha] at hx; simp [Ph.creates] at hx
  · intro j ph id hj hm; rw [hfin j ph hj] at hm; simp [Ph.makes] at hm
  · intro a b pa pb _ ha _ x hx; rw [hfin a pa ha] at hx; simp [Ph.makes] at hx

theorem prog_done {ph : Ph} {r : Res} (h : ph.prog = .done r) : ph = .fin r := by
  cases ph with
  | fin res => simp [Ph.prog] at h; rw [h]
  | add x r' k ks st => cases st <;> simp [Ph.prog, addAt, addTo] at h
  | rm e r' k ks st => cases st <;> simp [Ph.prog, rmAt, rmFrom] at h
  | _ => simp [Ph.prog, createEdgeProg, createEdgeCheckB, createEdgeAlloc, createEdgeFrom, deleteEdgeProg, delTail,
      updateNodeProg, updateNodeSecond, updateEdgeProg, updateEdgeSecond, addLabelProg, removeLabelProg,
      createNodeProg, createNodeFrom] at h

/-- a phase that owes nothing: no operation in flight that may leave an edge unlisted -/
def Ph.quiet (ph : Ph) : Prop := ∀ x K, ¬ Exc ph x K

theorem WF_of_J_quiet {ne0 : Nat} {D : Nat → Prop} {phs : List Ph} {s : St} {held : List Key} (hJ : J ne0 D phs s held)
    (hfin : ∀ (j : Nat) (ph : Ph), phs[j]? = some ph → ph.quiet) : WF s.kv := by
  have hl : ∀ x r, edgeAt s.kv x = some r → ∀ K ∈ req r, x ∈ L s.kv K := by
    intro x r hr K hK
    rcases (hJ.e1 x r hr).2.2 K hK with h | ⟨j, ph, hj, he⟩
    · exact h
    · exact absurd he (hfin j ph hj x K)
  refine ⟨?_, ?_, ?_, fun n => hJ.e3 (.out n), fun n => hJ.e3 (.inn n)⟩
  · intro x r hr
    obtain ⟨a1, a2, _⟩ := hJ.e1 x r hr
    refine ⟨a1, a2, hl x r hr (.out r.src) (by simp [req]), hl x r hr (.inn r.dst) (by simp [req]), fun hd => ?_⟩
    exact ⟨hl x r hr (.out r.dst) (by simp [req, hd]), hl x r hr (.inn r.src) (by simp [req, hd])⟩
  · intro n x hx
    obtain ⟨r, hr, hK⟩ := hJ.e2 (.out n) x hx
    refine ⟨r, hr, ?_⟩
    unfold req at hK
    cases hd : r.directed <;> simp [hd] at hK
    · rcases hK with h | h
      · exact Or.inl h.symm
      · exact Or.inr ⟨rfl, h.symm⟩
    · exact Or.inl hK.symm
  · intro n x hx
    obtain ⟨r, hr, hK⟩ := hJ.e2 (.inn n) x hx
    refine ⟨r, hr, ?_⟩
    unfold req at hK
    cases hd : r.directed <;> simp [hd] at hK
    · rcases hK with h | h
      · exact Or.inl h.symm
      · exact Or.inr ⟨rfl, h.symm⟩
    · exact Or.inl hK.symm

theorem WF_of_J_quiescent {ne0 : Nat} {D : Nat → Prop} {phs : List Ph} {s : St} {held : List Key} (hJ : J ne0 D phs s held)
    (hfin : ∀ (j : Nat) (ph : Ph), phs[j]? = some ph → ∃ r, ph = .fin r) : WF s.kv :=
  WF_of_J_quiet hJ (fun j ph hj x K he => by obtain ⟨r', rfl⟩ := hfin j ph hj; simp [Exc] at he)

/-- every interleaving of admissible operations ends, when all threads have finished, in a
    well-formed store -/
theorem quiescentWF_of_adm2 (s0 : St) (h : Inv s0) (D : Nat → Prop)
    (programs : List (List Op))
    (hadm : ∀ ops ∈ programs, ∀ op ∈ ops, op.adm2 s0.ne D) : QuiescentWF s0 programs := by
  intro sched hfin
  have hm : Matches s0.ne D (programs.map Thread.ofOps) (List.replicate programs.length (.fin .ok)) := by
    refine ⟨by simp, ?_⟩
    intro i t ph ht hp
    rw [List.getElem?_replicate] at hp
    split at hp
    · cases hp
      rw [List.getElem?_map] at ht
      cases hpi : programs[i]? with
      | none => simp [hpi] at ht
      | some ops =>
        simp [hpi] at ht; subst ht
        exact ⟨Or.inr ⟨rfl, _, rfl⟩, hadm ops (List.mem_of_getElem? hpi)⟩
    · cases hp
  obtain ⟨phs', hm', hJ'⟩ := runThreads_pres sched _ _ s0 [] hm (J_init h D programs.length)
  apply WF_of_J_quiescent hJ'
  intro j ph hj
  have hlt : j < (runThreads Op.prog (programs.map Thread.ofOps) sched s0 []).1.length := by
    rw [hm'.1]
    rcases Nat.lt_or_ge j phs'.length with h | h
    · exact h
    · rw [List.getElem?_eq_none h] at hj; cases hj
  have ht := List.getElem?_eq_getElem hlt
  obtain ⟨hcur, _⟩ := hm'.2 j _ ph ht hj
  have hf : ((runThreads Op.prog (programs.map Thread.ofOps) sched s0 []).1[j]).finished = true := by
    have := List.all_eq_true.mp hfin _ (List.getElem_mem hlt)
    exact this
  rcases hcur with hcur | ⟨_, r, rfl⟩
  · unfold Thread.finished at hf
    rw [hcur] at hf
    cases hp : ph.prog <;> simp [hp] at hf
    exact ⟨_, prog_done hp⟩
  · exact ⟨r, rfl⟩

/-- the operations `quiescent_wf_partial` admits, as a condition on the programs themselves:
    `create_node` and `create_edge` with ANY arguments (also node ids that a concurrent `create_node`
    is about to hand out), node updates and label changes of any node, `delete_edge` / `update_edge`
    of ids handed out before the phase, no edge both updated and deleted -/
def Admissible (s0 : St) (programs : List (List Op)) : Op → Prop
  | .createEdge .. => True
  | .createNode .. => True
  | .updateNode .. => True
  | .addLabel .. => True
  | .removeLabel .. => True
  | .deleteEdge e => e ≤ s0.ne
  | .updateEdge e _ => e ≤ s0.ne ∧ ∀ ops ∈ programs, Op.deleteEdge e ∉ ops
  | _ => False

theorem quiescentWF_of_admissible (s0 : St) (h : Inv s0) (programs : List (List Op))
    (hadm : ∀ ops ∈ programs, ∀ op ∈ ops, Admissible s0 programs op) : QuiescentWF s0 programs := by
  apply quiescentWF_of_adm2 s0 h (fun e => ∃ ops ∈ programs, Op.deleteEdge e ∈ ops) programs
  intro ops ho op hop
  have ha := hadm ops ho op hop
  cases op with
  | createEdge a b d ty v => trivial
  | createNode l v => trivial
  | updateNode n lab v => trivial
  | addLabel n l => trivial
  | removeLabel n l => trivial
  | deleteEdge e => exact ⟨ha, ops, ho, hop⟩
  | updateEdge e v =>
    refine ⟨ha.1, ?_⟩
    rintro ⟨ops', ho', hm⟩
    exact ha.2 ops' ho' hm
  | _ => exact ha.elim

theorem quiescentWF_of_adm (s0 : St) (h : Inv s0) (programs : List (List Op))
    (hadm : ∀ ops ∈ programs, ∀ op ∈ ops, op.adm s0.ne) : QuiescentWF s0 programs :=
  quiescentWF_of_adm2 s0 h (fun _ => True) programs
    (fun ops ho op hop => (hadm ops ho op hop).adm2)

end Neumann.Graph
