import NeumannModel.Graph.Atomic
/-
  C05 — the batch calls in the locked interleaving semantics.

  A batch call is a loop over items; the body of the loop is the program of a single operation after
  its checks (`create_edge_internal` = `createEdgeFrom`, `create_node_internal` = `createNodeFrom`) or a
  whole single operation (`delete_edge`), run through `Prog.bind` with the rest of the loop as
  continuation.  The invariant `J` of `Atomic.lean` talks about a list of phases, one per thread.  Here
  every ITEM of a batch call in flight gets a phase of its own at the end of that list (a "slot"): the
  thread that runs the batch call drives the slot of the current item through the phases of the single
  operation (the step lemmas of `Atomic.lean`, lifted through `bind`), the slots of the items still to
  come hold what the call has reserved for them: the endpoints that were validated (`ceAl`), the edge
  id of the block handed out by `allocEs` (`pre`), the node id handed out by `allocNs` (`cnP1`).  `J` is
  indifferent to which phases belong to real threads, so it is kept by every step of every thread.
-/
set_option linter.unusedSimpArgs false
set_option linter.unusedVariables false
namespace Neumann.Graph

/-! ### `bind` and the step functions -/

def Prog.isDone : Prog → Bool
  | .done _ => true
  | _ => false

theorem bind_step (p : Prog) (f : Res → Prog) (s : St) (h : p.isDone = false) :
    (p.bind f).step s = ((p.step s).1.bind f, (p.step s).2) := by
  cases p <;> simp_all [Prog.bind, Prog.step, Prog.isDone]

theorem bind_label (p : Prog) (f : Res → Prog) (h : p.isDone = false) : (p.bind f).label = p.label := by
  cases p <;> simp_all [Prog.bind, Prog.label, Prog.isDone]

theorem bind_isDone (p : Prog) (f : Res → Prog) (h : p.isDone = false) : (p.bind f).isDone = false := by
  cases p <;> simp_all [Prog.bind, Prog.isDone]

theorem silent_bind (pf : Op → Prog) (take : Bool) (p : Prog) (f : Res → Prog) (rest : List Op) (rs : List Res)
    (s : St) (held : List Key) (h : p.isDone = false) :
    Cfg.silent pf take ⟨p.bind f, rest, rs, s, held⟩ =
      (Cfg.silent pf take ⟨p, [], rs, s, held⟩).map fun c => { c with p := c.p.bind f, rest := rest } := by
  cases p with
  | done r => simp [Prog.isDone] at h
  | acq k p' =>
    simp only [Prog.bind, Cfg.silent]
    split <;> simp
  | _ => simp [Prog.bind, Cfg.silent]

/-- the silent step of a program that is not at the end of its operation does not look at the
    operations still to run -/
theorem silent_rest (pf : Op → Prog) (take : Bool) (p : Prog) (rest : List Op) (rs : List Res)
    (s : St) (held : List Key) (h : p.isDone = false) :
    Cfg.silent pf take ⟨p, rest, rs, s, held⟩ =
      (Cfg.silent pf take ⟨p, [], rs, s, held⟩).map fun c => { c with rest := rest } := by
  cases p with
  | done r => simp [Prog.isDone] at h
  | acq k p' =>
    simp only [Cfg.silent]
    split <;> simp
  | _ => simp [Cfg.silent]

theorem isDone_of_prog_done {ph : Ph} (h : ph.prog.isDone = true) : ∃ r, ph = .fin r := by
  cases hp : ph.prog with
  | done r => exact ⟨r, prog_done hp⟩
  | _ => simp [hp, Prog.isDone] at h

/-! ### more phases at the end of the list -/

theorem get_append_fin {phs : List Ph} {n j : Nat} {ph : Ph}
    (h : (phs ++ List.replicate n (Ph.fin .ok))[j]? = some ph) : phs[j]? = some ph ∨ ph = .fin .ok := by
  by_cases hj : j < phs.length
  · rw [List.getElem?_append_left hj] at h; exact Or.inl h
  · rw [List.getElem?_append_right (by omega)] at h
    rw [List.getElem?_replicate] at h
    split at h
    · cases h; exact Or.inr rfl
    · cases h

theorem get_append_left {phs : List Ph} {n j : Nat} {ph : Ph} (h : phs[j]? = some ph) :
    (phs ++ List.replicate n (Ph.fin .ok))[j]? = some ph := by
  have hj : j < phs.length := by
    rcases Nat.lt_or_ge j phs.length with h' | h'
    · exact h'
    · rw [List.getElem?_eq_none h'] at h; cases h
  rw [List.getElem?_append_left hj]; exact h

/-- appending phases that claim nothing keeps `J` -/
theorem J.append_fin {ne0 : Nat} {D : Nat → Prop} {phs : List Ph} {s : St} {held : List Key}
    (hJ : J ne0 D phs s held) (n : Nat) : J ne0 D (phs ++ List.replicate n (.fin .ok)) s held := by
  refine ⟨hJ.ne_ge, hJ.fresh, hJ.freshN, ?_, hJ.e2, hJ.e3, ?_, ?_, ?_, ?_, ?_⟩
  · intro x r hr
    obtain ⟨h1, h2, h3⟩ := hJ.e1 x r hr
    refine ⟨h1, h2, fun K hK => ?_⟩
    rcases h3 K hK with h | ⟨j, ph, hj, he⟩
    · exact Or.inl h
    · exact Or.inr ⟨j, ph, get_append_left hj, he⟩
  · intro j ph hj
    rcases get_append_fin hj with h | rfl
    · exact hJ.loc j ph h
    · trivial
  · intro a b pa pb hab ha hb k hk1 hk2
    rcases get_append_fin ha with ha' | rfl
    · rcases get_append_fin hb with hb' | rfl
      · exact hJ.excl a b pa pb hab ha' hb' k hk1 hk2
      · simp [Ph.holds] at hk2
    · simp [Ph.holds] at hk1
  · intro a b pa pb hab ha hb x hx1 hx2
    rcases get_append_fin ha with ha' | rfl
    · rcases get_append_fin hb with hb' | rfl
      · exact hJ.uniq a b pa pb hab ha' hb' x hx1 hx2
      · simp [Ph.creates] at hx2
    · simp [Ph.creates] at hx1
  · intro j ph id hj hm
    rcases get_append_fin hj with h | rfl
    · exact hJ.mkle j ph id h hm
    · simp [Ph.makes] at hm
  · intro a b pa pb hab ha hb x hx1 hx2
    rcases get_append_fin ha with ha' | rfl
    · rcases get_append_fin hb with hb' | rfl
      · exact hJ.uniqN a b pa pb hab ha' hb' x hx1 hx2
      · simp [Ph.makes] at hx2
    · simp [Ph.makes] at hx1

/-! ### driving a slot: the step lemmas of `Atomic.lean` under a continuation -/

theorem drive_store {ne0 : Nat} {D : Nat → Prop} {phs : List Ph} {s : St} {held : List Key} {u : Nat} {ph : Ph}
    (hJ : J ne0 D phs s held) (hu : phs[u]? = some ph) (f : Res → Prog) (hnd : ph.prog.isDone = false)
    (hlab : (ph.prog.bind f).label.isSome = true) :
    ∃ ph', ((ph.prog.bind f).step s).1 = ph'.prog.bind f ∧
      J ne0 D (phs.set u ph') ((ph.prog.bind f).step s).2 held := by
  rw [bind_label _ _ hnd] at hlab
  obtain ⟨ph', h1, h2⟩ := store_pres hJ hu hlab
  refine ⟨ph', ?_, ?_⟩
  · rw [bind_step _ _ _ hnd, h1]
  · rw [bind_step _ _ _ hnd]; exact h2

theorem drive_silent {ne0 : Nat} {D : Nat → Prop} {phs : List Ph} {s : St} {held : List Key} {u : Nat} {ph : Ph}
    (hJ : J ne0 D phs s held) (hu : phs[u]? = some ph) (f : Res → Prog) (hnd : ph.prog.isDone = false)
    (rest : List Op) (take : Bool) (rs : List Res) (c' : Cfg)
    (h : Cfg.silent Op.prog take ⟨ph.prog.bind f, rest, rs, s, held⟩ = some c') :
    ∃ ph', c'.p = ph'.prog.bind f ∧ c'.rest = rest ∧ J ne0 D (phs.set u ph') c'.s c'.held := by
  rw [silent_bind _ _ _ _ _ _ _ _ hnd] at h
  cases h0 : Cfg.silent Op.prog take ⟨ph.prog, [], rs, s, held⟩ with
  | none => simp [h0] at h
  | some c0 =>
    simp [h0] at h
    obtain ⟨ph', p1, _, p3⟩ := silent_pres hJ hu [] (by simp) take rs c0 h0
    subst h
    exact ⟨ph', by simp [p1], rfl, p3⟩

/-! ### where a thread is inside a batch call -/

def EdgeIn.pre (e : EdgeIn) (x : Nat) : Ph := .pre x e.a e.b e.d e.ty e.v

/-- `batch_create_edges` after its validation phase -/
def bceC (items : List EdgeIn) : Prog :=
  .allocEs items.length fun start => bceLoop start items 0 (.done (.ids start items.length))

/-- what `batch_create_edges` does after item `j` -/
def bceK (start : Nat) (items : List EdgeIn) (j : Nat) : Res → Prog :=
  fun _ => bceLoop start (items.drop (j + 1)) (j + 1) (.done (.ids start items.length))

def bcnC (items : List (Nat × Nat)) : Prog :=
  .allocNs items.length fun start => bcnLoop start items 0 (.done (.ids start items.length))

def bcnK (start : Nat) (items : List (Nat × Nat)) (j : Nat) : Res → Prog :=
  fun _ => bcnLoop start (items.drop (j + 1)) (j + 1) (.done (.ids start items.length))

/-- what `batch_delete_edges` does after `delete_edge(e)`, its item `j`, answered `r` -/
def bdeK (ids : List Nat) (j e : Nat) (del : List Nat) (fl : List (Nat × Nat × Cause)) : Res → Prog :=
  fun r => match r with
    | .ok => bdeLoop (ids.drop (j + 1)) (j + 1) (e :: del) fl
    | r => bdeLoop (ids.drop (j + 1)) (j + 1) del ((j, e, causeOf r) :: fl)

/-- what `batch_update_nodes` does after `update_node`, its item `j`, answered `r` -/
def bunK (us : List (Nat × Option Nat × Nat)) (j cnt : Nat) : Res → Prog :=
  fun r => match r with
    | .ok => bunLoop (us.drop (j + 1)) (cnt + 1)
    | _ => bunLoop (us.drop (j + 1)) cnt

inductive BK where
  /-- `batch_create_edges`, validation: before the check of the source (`sec = false`) or of the
      target (`sec = true`) of item `j` -/
  | ceV (base : Nat) (items : List EdgeIn) (j : Nat) (sec : Bool)
  /-- `batch_create_edges`, phase 3, inside item `j`; `start` = first id of the block -/
  | ceL (base : Nat) (items : List EdgeIn) (start j : Nat)
  /-- `batch_create_nodes` before the id block is taken -/
  | cnA (base : Nat) (items : List (Nat × Nat))
  | cnL (base : Nat) (items : List (Nat × Nat)) (start j : Nat)
  /-- `batch_delete_edges` inside item `j` -/
  | deL (base : Nat) (ids : List Nat) (j : Nat) (del : List Nat) (fl : List (Nat × Nat × Cause))
  /-- `batch_update_nodes`, validation: before the `get_node` of item `j` -/
  | unV (base : Nat) (us : List (Nat × Option Nat × Nat)) (j : Nat)
  /-- `batch_update_nodes` inside `update_node` of item `j`; `cnt` updates applied so far -/
  | unL (base : Nat) (us : List (Nat × Option Nat × Nat)) (j cnt : Nat)

def BK.base : BK → Nat
  | .ceV b .. | .ceL b .. | .cnA b .. | .cnL b .. | .deL b .. | .unV b .. | .unL b .. => b

def BK.n : BK → Nat
  | .ceV _ items .. | .ceL _ items .. => items.length
  | .cnA _ items | .cnL _ items .. => items.length
  | .deL _ ids .. => ids.length
  | .unV _ us .. | .unL _ us .. => us.length

/-- the slot the thread is driving -/
def BK.slot : BK → Option Nat
  | .ceL b _ _ j | .cnL b _ _ j | .deL b _ j _ _ | .unL b _ j _ => some (b + j)
  | _ => none

def slotProg (phs : List Ph) (u : Nat) (f : Res → Prog) : Prog :=
  match phs[u]? with
  | some ph => ph.prog.bind f
  | none => .done .ok

def BK.prog (phs : List Ph) : BK → Prog
  | .ceV _ items j false => bceValidate (items.drop j) j (bceC items)
  | .ceV _ items j true =>
    match items[j]? with
    | some e => .ex (.node e.b) fun okb =>
        if !okb then .done (.batchInvalid j e.b) else bceValidate (items.drop (j + 1)) (j + 1) (bceC items)
    | none => .done .ok
  | .ceL base items start j => slotProg phs (base + j) (bceK start items j)
  | .cnA _ items => bcnC items
  | .cnL base items start j => slotProg phs (base + j) (bcnK start items j)
  | .deL base ids j del fl => slotProg phs (base + j) (bdeK ids j (ids.getD j 0) del fl)
  | .unV _ us j => bunValidate (us.drop j) j (bunLoop us 0)
  | .unL base us j cnt => slotProg phs (base + j) (bunK us j cnt)

def BK.ok (ne0 : Nat) (D : Nat → Prop) (phs : List Ph) : BK → Prop
  | .ceV base items j sec => j ≤ items.length ∧ (sec = true → j < items.length) ∧ items ≠ [] ∧
      (∀ i e, i < j → items[i]? = some e → phs[base + i]? = some (.ceAl e.a e.b e.d e.ty e.v)) ∧
      (∀ e, sec = true → items[j]? = some e → phs[base + j]? = some (.ceB e.a e.b e.d e.ty e.v)) ∧
      (∀ i, j ≤ i → (sec = true → j < i) → i < items.length → phs[base + i]? = some (.fin .ok))
  | .ceL base items start j => j < items.length ∧
      (∃ ph, phs[base + j]? = some ph ∧ ph.prog.isDone = false) ∧
      (∀ i e, j < i → items[i]? = some e → phs[base + i]? = some (e.pre (start + i)))
  | .cnA base items => items ≠ [] ∧ ∀ i, i < items.length → phs[base + i]? = some (.fin .ok)
  | .cnL base items start j => j < items.length ∧
      (∃ ph, phs[base + j]? = some ph ∧ ph.prog.isDone = false) ∧
      (∀ i lv, j < i → items[i]? = some lv → phs[base + i]? = some (.cnP1 (start + i) lv.1 lv.2))
  | .deL base ids j del fl => j < ids.length ∧
      (∃ ph, phs[base + j]? = some ph ∧ ph.prog.isDone = false) ∧
      (∀ e ∈ ids, e ≤ ne0 ∧ D e) ∧
      (∀ i, j < i → i < ids.length → phs[base + i]? = some (.fin .ok))
  | .unV base us j => j < us.length ∧ ∀ i, i < us.length → phs[base + i]? = some (.fin .ok)
  | .unL base us j cnt => j < us.length ∧
      (∃ ph, phs[base + j]? = some ph ∧ ph.prog.isDone = false) ∧
      (∀ i, j < i → i < us.length → phs[base + i]? = some (.fin .ok))

def inBlk (b : Option BK) (x : Nat) : Prop := ∃ k, b = some k ∧ k.base ≤ x ∧ x < k.base + k.n

theorem BK.prog_congr {phs phs' : List Ph} (k : BK)
    (h : ∀ x, k.base ≤ x → x < k.base + k.n → phs'[x]? = phs[x]?) (hok : ∃ ne0 D, k.ok ne0 D phs) :
    k.prog phs' = k.prog phs := by
  obtain ⟨ne0, D, hok⟩ := hok
  cases k with
  | ceV base items j sec => cases sec <;> rfl
  | cnA base items => rfl
  | ceL base items start j =>
    simp only [BK.prog, slotProg]
    rw [h (base + j) (by simp [BK.base]) (by simp only [BK.base, BK.n]; have := hok.1; omega)]
  | cnL base items start j =>
    simp only [BK.prog, slotProg]
    rw [h (base + j) (by simp [BK.base]) (by simp only [BK.base, BK.n]; have := hok.1; omega)]
  | deL base ids j del fl =>
    simp only [BK.prog, slotProg]
    rw [h (base + j) (by simp [BK.base]) (by simp only [BK.base, BK.n]; have := hok.1; omega)]
  | unV base us j => rfl
  | unL base us j cnt =>
    simp only [BK.prog, slotProg]
    rw [h (base + j) (by simp [BK.base]) (by simp only [BK.base, BK.n]; have := hok.1; omega)]

theorem BK.ok_congr {ne0 : Nat} {D : Nat → Prop} {phs phs' : List Ph} (k : BK)
    (h : ∀ x, k.base ≤ x → x < k.base + k.n → phs'[x]? = phs[x]?) (hok : k.ok ne0 D phs) : k.ok ne0 D phs' := by
  have lt_of_get : ∀ {α : Type} (l : List α) (i : Nat) (a : α), l[i]? = some a → i < l.length := by
    intro α l i a hh
    rcases Nat.lt_or_ge i l.length with h' | h'
    · exact h'
    · rw [List.getElem?_eq_none h'] at hh; cases hh
  cases k with
  | ceV base items j sec =>
    obtain ⟨h1, h2, h3, h4, h5, h6⟩ := hok
    refine ⟨h1, h2, h3, ?_, ?_, ?_⟩
    · intro i e hi he
      rw [h (base + i) (by simp [BK.base]) (by simp only [BK.base, BK.n]; omega)]; exact h4 i e hi he
    · intro e hs he
      rw [h (base + j) (by simp [BK.base]) (by simp only [BK.base, BK.n]; have := h2 hs; omega)]; exact h5 e hs he
    · intro i hi1 hi2 hi3
      rw [h (base + i) (by simp [BK.base]) (by simp only [BK.base, BK.n]; omega)]; exact h6 i hi1 hi2 hi3
  | ceL base items start j =>
    obtain ⟨h1, ⟨ph, h2, h3⟩, h4⟩ := hok
    refine ⟨h1, ⟨ph, ?_, h3⟩, ?_⟩
    · rw [h (base + j) (by simp [BK.base]) (by simp only [BK.base, BK.n]; omega)]; exact h2
    · intro i e hi he
      have := lt_of_get _ _ _ he
      rw [h (base + i) (by simp [BK.base]) (by simp only [BK.base, BK.n]; omega)]; exact h4 i e hi he
  | cnA base items =>
    obtain ⟨h1, h2⟩ := hok
    refine ⟨h1, fun i hi => ?_⟩
    rw [h (base + i) (by simp [BK.base]) (by simp only [BK.base, BK.n]; omega)]; exact h2 i hi
  | cnL base items start j =>
    obtain ⟨h1, ⟨ph, h2, h3⟩, h4⟩ := hok
    refine ⟨h1, ⟨ph, ?_, h3⟩, ?_⟩
    · rw [h (base + j) (by simp [BK.base]) (by simp only [BK.base, BK.n]; omega)]; exact h2
    · intro i e hi he
      have := lt_of_get _ _ _ he
      rw [h (base + i) (by simp [BK.base]) (by simp only [BK.base, BK.n]; omega)]; exact h4 i e hi he
  | deL base ids j del fl =>
    obtain ⟨h1, ⟨ph, h2, h3⟩, h4, h5⟩ := hok
    refine ⟨h1, ⟨ph, ?_, h3⟩, h4, ?_⟩
    · rw [h (base + j) (by simp [BK.base]) (by simp only [BK.base, BK.n]; omega)]; exact h2
    · intro i hi1 hi2
      rw [h (base + i) (by simp [BK.base]) (by simp only [BK.base, BK.n]; omega)]; exact h5 i hi1 hi2
  | unV base us j =>
    obtain ⟨h1, h2⟩ := hok
    refine ⟨h1, fun i hi => ?_⟩
    rw [h (base + i) (by simp [BK.base]) (by simp only [BK.base, BK.n]; omega)]; exact h2 i hi
  | unL base us j cnt =>
    obtain ⟨h1, ⟨ph, h2, h3⟩, h5⟩ := hok
    refine ⟨h1, ⟨ph, ?_, h3⟩, ?_⟩
    · rw [h (base + j) (by simp [BK.base]) (by simp only [BK.base, BK.n]; omega)]; exact h2
    · intro i hi1 hi2
      rw [h (base + i) (by simp [BK.base]) (by simp only [BK.base, BK.n]; omega)]; exact h5 i hi1 hi2

theorem BK.slot_in {ne0 : Nat} {D : Nat → Prop} {phs : List Ph} {k : BK} {x : Nat}
    (hok : k.ok ne0 D phs) (hs : k.slot = some x) : k.base ≤ x ∧ x < k.base + k.n := by
  cases k with
  | ceV base items j sec => simp [BK.slot] at hs
  | cnA base items => simp [BK.slot] at hs
  | ceL base items start j => simp [BK.slot] at hs; subst hs; have := hok.1; simp [BK.base, BK.n]; omega
  | cnL base items start j => simp [BK.slot] at hs; subst hs; have := hok.1; simp [BK.base, BK.n]; omega
  | deL base ids j del fl => simp [BK.slot] at hs; subst hs; have := hok.1; simp [BK.base, BK.n]; omega
  | unV base us j => simp [BK.slot] at hs
  | unL base us j cnt => simp [BK.slot] at hs; subst hs; have := hok.1; simp [BK.base, BK.n]; omega

/-- the invariant of the whole system: `J` over the phases of the threads and of the items of the
    batch calls in flight; `bs[i]` says where thread `i` is inside a batch call (`none`: not in one, its
    phase is `phs[i]`) -/
structure G (ne0 : Nat) (D : Nat → Prop) (bs : List (Option BK)) (phs : List Ph) (s : St) (held : List Key) : Prop where
  j : J ne0 D phs s held
  le : bs.length ≤ phs.length
  ok : ∀ (i : Nat) (k : BK), bs[i]? = some (some k) →
    k.ok ne0 D phs ∧ (∃ r, phs[i]? = some (.fin r)) ∧ bs.length ≤ k.base ∧ k.base + k.n ≤ phs.length
  disj : ∀ (i i' : Nat) (k k' : BK), i ≠ i' → bs[i]? = some (some k) → bs[i']? = some (some k') →
    k.base + k.n ≤ k'.base ∨ k'.base + k'.n ≤ k.base
  quiet : ∀ (x : Nat) (ph : Ph), bs.length ≤ x → phs[x]? = some ph →
    ph.quiet ∨ ∃ (i : Nat) (k : BK), bs[i]? = some (some k) ∧ k.slot = some x

theorem getB_set {bs : List (Option BK)} {i : Nat} (hi : i < bs.length) (b' : Option BK) (j : Nat) :
    (bs.set i b')[j]? = if j = i then some b' else bs[j]? := by
  rw [List.getElem?_set]
  by_cases h : j = i
  · subst h; simp [hi]
  · have : ¬ i = j := fun hh => h hh.symm
    simp [h, this]

/-- a slot of the block of `k` other than the one `k` drives holds a quiet phase -/
theorem G.block_quiet {ne0 : Nat} {D : Nat → Prop} {bs : List (Option BK)} {phs : List Ph} {s : St} {held : List Key}
    (hG : G ne0 D bs phs s held) {i : Nat} {k : BK} (hb : bs[i]? = some (some k)) {x : Nat} {ph : Ph}
    (hx1 : k.base ≤ x) (hx2 : x < k.base + k.n) (hns : k.slot ≠ some x) (hp : phs[x]? = some ph) : ph.quiet := by
  obtain ⟨hok, _, hT, _⟩ := hG.ok i k hb
  rcases hG.quiet x ph (by omega) hp with h | ⟨i', k', hb', hs'⟩
  · exact h
  · by_cases hii : i' = i
    · subst hii; rw [hb] at hb'; cases hb'; exact absurd hs' hns
    · obtain ⟨hok', _, _, _⟩ := hG.ok i' k' hb'
      have := BK.slot_in hok' hs'
      rcases hG.disj i i' k k' (fun h => hii h.symm) hb hb' with h | h <;> omega

/-- thread `i` has moved: what has to be shown -/
theorem G.update {ne0 : Nat} {D : Nat → Prop} {bs : List (Option BK)} {phs : List Ph} {s : St} {held : List Key}
    (hG : G ne0 D bs phs s held) {i : Nat} (hi : i < bs.length) {b : Option BK} (hb : bs[i]? = some b)
    (b' : Option BK) (phs' : List Ph) (s' : St) (held' : List Key)
    (hJ : J ne0 D phs' s' held')
    (hlen : phs.length ≤ phs'.length)
    (hst : ∀ x, x < phs.length → x ≠ i → ¬ inBlk b x → phs'[x]? = phs[x]?)
    (hown : ∀ k', b' = some k' → k'.ok ne0 D phs' ∧ (∃ r, phs'[i]? = some (.fin r)) ∧ k'.base + k'.n ≤ phs'.length ∧
      ((∃ k, b = some k ∧ k'.base = k.base ∧ k'.n = k.n) ∨ (b = none ∧ k'.base = phs.length)))
    (hq : ∀ x ph, bs.length ≤ x → phs'[x]? = some ph → (inBlk b x ∨ phs.length ≤ x) →
      ph.quiet ∨ ∃ k', b' = some k' ∧ k'.slot = some x) :
    G ne0 D (bs.set i b') phs' s' held' := by
  have hbi : ∀ k, b = some k → bs[i]? = some (some k) := fun k hk => by rw [hb, hk]
  -- another thread's block and own phase are untouched
  have hother : ∀ i'' k'', i'' ≠ i → bs[i'']? = some (some k'') →
      (∀ x, k''.base ≤ x → x < k''.base + k''.n → phs'[x]? = phs[x]?) ∧ phs'[i'']? = phs[i'']? := by
    intro i'' k'' hne hb''
    obtain ⟨_, _, hT, hE⟩ := hG.ok i'' k'' hb''
    have hlt : i'' < bs.length := by
      rcases Nat.lt_or_ge i'' bs.length with h | h
      · exact h
      · rw [List.getElem?_eq_none h] at hb''; cases hb''
    refine ⟨fun x hx1 hx2 => hst x (by omega) (by omega) ?_, hst i'' (by have := hG.le; omega) hne ?_⟩
    · rintro ⟨k, hk, h1, h2⟩
      rcases hG.disj i i'' k k'' (fun h => hne h.symm) (hbi k hk) hb'' with h | h <;> omega
    · rintro ⟨k, hk, h1, h2⟩
      have := (hG.ok i k (hbi k hk)).2.2.1
      omega
  refine ⟨hJ, by rw [List.length_set]; exact Nat.le_trans hG.le hlen, ?_, ?_, ?_⟩
  · intro i'' k'' hb''
    rw [getB_set hi] at hb''
    rw [List.length_set]
    by_cases hii : i'' = i
    · subst hii; simp at hb''
      obtain ⟨h1, h2, h3, h4⟩ := hown k'' hb''
      refine ⟨h1, h2, ?_, h3⟩
      rcases h4 with ⟨k, hk, e1, _⟩ | ⟨_, e1⟩
      · rw [e1]; exact (hG.ok i'' k (hbi k hk)).2.2.1
      · rw [e1]; exact hG.le
    · simp [hii] at hb''
      obtain ⟨h1, ⟨r, h2⟩, h3, h4⟩ := hG.ok i'' k'' hb''
      obtain ⟨c1, c2⟩ := hother i'' k'' hii hb''
      exact ⟨BK.ok_congr k'' c1 h1, ⟨r, by rw [c2]; exact h2⟩, h3, Nat.le_trans h4 hlen⟩
  · intro a c ka kc hac ha hc
    rw [getB_set hi] at ha hc
    -- the block of the moved thread is its old block or lies beyond the old list
    have key : ∀ k' k'', b' = some k' → ∀ i'', i'' ≠ i → bs[i'']? = some (some k'') →
        k'.base + k'.n ≤ k''.base ∨ k''.base + k''.n ≤ k'.base := by
      intro k' k'' hk' i'' hne hb''
      obtain ⟨_, _, _, h4⟩ := hown k' hk'
      rcases h4 with ⟨k, hk, e1, e2⟩ | ⟨_, e1⟩
      · rw [e1, e2]; exact hG.disj i i'' k k'' (fun h => hne h.symm) (hbi k hk) hb''
      · right; rw [e1]; exact (hG.ok i'' k'' hb'').2.2.2
    by_cases hai : a = i
    · subst hai
      have hci : c ≠ a := fun h => hac h.symm
      simp at ha; simp [hci] at hc
      exact key ka kc ha c hci hc
    · simp [hai] at ha
      by_cases hci : c = i
      · subst hci; simp at hc
        rcases key kc ka hc a hai ha with h | h
        · exact Or.inr h
        · exact Or.inl h
      · simp [hci] at hc
        exact hG.disj a c ka kc hac ha hc
  · intro x ph hx hp
    rw [List.length_set] at hx
    by_cases hold : x < phs.length ∧ ¬ inBlk b x
    · have hxi : x ≠ i := by omega
      rw [hst x hold.1 hxi hold.2] at hp
      rcases hG.quiet x ph hx hp with h | ⟨i'', k'', hb'', hs''⟩
      · exact Or.inl h
      · have hne : i'' ≠ i := by
          rintro rfl
          rw [hb] at hb''; cases hb''
          exact hold.2 ⟨k'', rfl, BK.slot_in (hG.ok i'' k'' (hbi k'' rfl)).1 hs''⟩
        exact Or.inr ⟨i'', k'', by rw [getB_set hi]; simp [hne, hb''], hs''⟩
    · have : inBlk b x ∨ phs.length ≤ x := by
        by_cases h1 : x < phs.length
        · left; exact Classical.byContradiction fun h2 => hold ⟨h1, h2⟩
        · right; omega
      rcases hq x ph hx hp this with h | ⟨k', hk', hs'⟩
      · exact Or.inl h
      · exact Or.inr ⟨i, k', by rw [getB_set hi]; simp [hk'], hs'⟩

/-! ### the loops, unrolled at item `j` -/

theorem lt_of_getElem? {α : Type} {l : List α} {i : Nat} {a : α} (h : l[i]? = some a) : i < l.length := by
  rcases Nat.lt_or_ge i l.length with h' | h'
  · exact h'
  · rw [List.getElem?_eq_none h'] at h; cases h

theorem drop_cons_of_get {α : Type} {l : List α} {j : Nat} {a : α} (h : l[j]? = some a) :
    l.drop j = a :: l.drop (j + 1) := by
  have hlt := lt_of_getElem? h
  rw [List.drop_eq_getElem_cons hlt]
  rw [List.getElem?_eq_getElem hlt] at h
  cases h; rfl

theorem bceLoop_drop (start : Nat) (items : List EdgeIn) (j : Nat) (e : EdgeIn) (c : Prog) (he : items[j]? = some e) :
    bceLoop start (items.drop j) j c =
      (e.pre (start + j)).prog.bind (fun _ => bceLoop start (items.drop (j + 1)) (j + 1) c) := by
  rw [drop_cons_of_get he]; rfl

theorem bcnLoop_drop (start : Nat) (items : List (Nat × Nat)) (j : Nat) (lv : Nat × Nat) (c : Prog)
    (he : items[j]? = some lv) :
    bcnLoop start (items.drop j) j c =
      (Ph.cnP1 (start + j) lv.1 lv.2).prog.bind (fun _ => bcnLoop start (items.drop (j + 1)) (j + 1) c) := by
  rw [drop_cons_of_get he]; cases lv; rfl

theorem bdeLoop_drop (ids : List Nat) (j e : Nat) (del : List Nat) (fl : List (Nat × Nat × Cause)) (he : ids[j]? = some e) :
    bdeLoop (ids.drop j) j del fl = (Ph.deA e).prog.bind (bdeK ids j e del fl) := by
  rw [drop_cons_of_get he]; rfl

theorem bunLoop_drop (us : List (Nat × Option Nat × Nat)) (j cnt : Nat) (u : Nat × Option Nat × Nat) (he : us[j]? = some u) :
    bunLoop (us.drop j) cnt = (Ph.unA u.1 u.2.1 u.2.2).prog.bind (bunK us j cnt) := by
  rw [drop_cons_of_get he]; obtain ⟨id, lab, v⟩ := u; rfl

theorem bunValidate_drop (us : List (Nat × Option Nat × Nat)) (j : Nat) (u : Nat × Option Nat × Nat) (c : Prog)
    (he : us[j]? = some u) :
    bunValidate (us.drop j) j c =
      .get (.node u.1) fun v =>
        match v with
        | none => .done (.batchInvalid j u.1)
        | some _ => bunValidate (us.drop (j + 1)) (j + 1) c := by
  rw [drop_cons_of_get he]; obtain ⟨id, lab, v⟩ := u; rfl

theorem bceValidate_drop (items : List EdgeIn) (j : Nat) (e : EdgeIn) (c : Prog) (he : items[j]? = some e) :
    bceValidate (items.drop j) j c =
      .ex (.node e.a) fun oka =>
        if !oka then .done (.batchInvalid j e.a)
        else .ex (.node e.b) fun okb =>
          if !okb then .done (.batchInvalid j e.b) else bceValidate (items.drop (j + 1)) (j + 1) c := by
  rw [drop_cons_of_get he]; rfl

/-! ### one step of thread `i` -/

def CurOK (phs : List Ph) (i : Nat) (b : Option BK) (p : Prog) : Prop :=
  match b with
  | none => ∃ ph, phs[i]? = some ph ∧ p = ph.prog
  | some k => p = k.prog phs

/-- thread `i` moved to program `p'`: the invariant holds again, and nothing outside the thread's own
    phase and block changed -/
def StepOK (ne0 : Nat) (D : Nat → Prop) (bs : List (Option BK)) (phs : List Ph) (i : Nat) (b : Option BK)
    (p' : Prog) (s' : St) (held' : List Key) : Prop :=
  ∃ (b' : Option BK) (phs' : List Ph), CurOK phs' i b' p' ∧ G ne0 D (bs.set i b') phs' s' held' ∧
    phs.length ≤ phs'.length ∧ (∀ x, x < phs.length → x ≠ i → ¬ inBlk b x → phs'[x]? = phs[x]?) ∧
    (∀ x, x < phs.length → inBlk b' x → inBlk b x)

theorem set_ne {phs : List Ph} {u x : Nat} (ph' : Ph) (h : x ≠ u) : (phs.set u ph')[x]? = phs[x]? := by
  rw [List.getElem?_set]
  have : ¬ u = x := fun hh => h hh.symm
  simp [this]

theorem set_eq {phs : List Ph} {u : Nat} {ph : Ph} (ph' : Ph) (h : phs[u]? = some ph) : (phs.set u ph')[u]? = some ph' := by
  rw [get_set h]; simp

section steps
variable {ne0 : Nat} {D : Nat → Prop} {bs : List (Option BK)} {phs : List Ph} {s : St} {held : List Key} {i : Nat}

/-- thread `i`, not in a batch call, moved from phase `ph` to `ph'` -/
theorem plain_ok (hG : G ne0 D bs phs s held) (hi : i < bs.length) (hb : bs[i]? = some none) {ph : Ph}
    (hp : phs[i]? = some ph) (ph' : Ph) (s' : St) (held' : List Key) (hJ : J ne0 D (phs.set i ph') s' held') :
    StepOK ne0 D bs phs i none ph'.prog s' held' := by
  have hst : ∀ x, x < phs.length → x ≠ i → ¬ inBlk none x → (phs.set i ph')[x]? = phs[x]? :=
    fun x _ hx _ => set_ne ph' hx
  refine ⟨none, phs.set i ph', ⟨ph', set_eq ph' hp, rfl⟩, ?_, by simp, hst, fun x _ h => by obtain ⟨k, hk, _⟩ := h; cases hk⟩
  refine hG.update hi hb none _ s' held' hJ (by simp) hst (by intro k' h; cases h) ?_
  intro x ph2 hx hp2 hor
  rcases hor with ⟨k, hk, _⟩ | h
  · cases hk
  · rw [List.getElem?_eq_none (by simp; omega)] at hp2; cases hp2

/-- a step inside the block of a batch call that leaves the call where it is (`k`): only the driven slot
    changed, to a phase whose program has not ended -/
theorem drive_ok (hG : G ne0 D bs phs s held) (hi : i < bs.length) {k : BK} (hb : bs[i]? = some (some k))
    {u : Nat} (hs : k.slot = some u) {ph : Ph} (hu : phs[u]? = some ph) (ph' : Ph) (hnd : ph'.prog.isDone = false)
    (s' : St) (held' : List Key) (hJ : J ne0 D (phs.set u ph') s' held') (f : Res → Prog)
    (hprog : ∀ phs2 : List Ph, phs2[u]? = some ph' → k.prog phs2 = ph'.prog.bind f) :
    StepOK ne0 D bs phs i (some k) (ph'.prog.bind f) s' held' := by
  obtain ⟨hok, ⟨r, hr⟩, hT, hE⟩ := hG.ok i k hb
  obtain ⟨hu1, hu2⟩ := BK.slot_in hok hs
  have hui : u ≠ i := by omega
  have hst : ∀ x, x < phs.length → x ≠ i → ¬ inBlk (some k) x → (phs.set u ph')[x]? = phs[x]? := by
    intro x _ _ hnb
    apply set_ne
    rintro rfl
    exact hnb ⟨k, rfl, hu1, hu2⟩
  refine ⟨some k, phs.set u ph', (hprog _ (set_eq ph' hu)).symm, ?_, by simp, hst, fun x _ h => h⟩
  refine hG.update hi hb (some k) _ s' held' hJ (by simp) hst ?_ ?_
  · intro k' hk'
    cases hk'
    refine ⟨?_, ⟨r, by rw [set_ne ph' (fun h => hui h.symm)]; exact hr⟩, by simpa using hE, Or.inl ⟨k, rfl, rfl, rfl⟩⟩
    cases k with
    | ceV base items j sec => simp [BK.slot] at hs
    | cnA base items => simp [BK.slot] at hs
    | ceL base items start j =>
      simp [BK.slot] at hs; subst hs
      obtain ⟨h1, _, h3⟩ := hok
      refine ⟨h1, ⟨ph', set_eq ph' hu, hnd⟩, fun x e hx he => ?_⟩
      rw [set_ne ph' (by omega)]; exact h3 x e hx he
    | cnL base items start j =>
      simp [BK.slot] at hs; subst hs
      obtain ⟨h1, _, h3⟩ := hok
      refine ⟨h1, ⟨ph', set_eq ph' hu, hnd⟩, fun x e hx he => ?_⟩
      rw [set_ne ph' (by omega)]; exact h3 x e hx he
    | deL base ids j del fl =>
      simp [BK.slot] at hs; subst hs
      obtain ⟨h1, _, h3, h4⟩ := hok
      refine ⟨h1, ⟨ph', set_eq ph' hu, hnd⟩, h3, fun x hx1 hx2 => ?_⟩
      rw [set_ne ph' (by omega)]; exact h4 x hx1 hx2
    | unV base us j => simp [BK.slot] at hs
    | unL base us j cnt =>
      simp [BK.slot] at hs; subst hs
      obtain ⟨h1, _, h4⟩ := hok
      refine ⟨h1, ⟨ph', set_eq ph' hu, hnd⟩, fun x hx1 hx2 => ?_⟩
      rw [set_ne ph' (by omega)]; exact h4 x hx1 hx2
  · intro x ph2 hx hp2 hor
    by_cases hxu : x = u
    · subst hxu; exact Or.inr ⟨k, rfl, hs⟩
    · rw [set_ne ph' hxu] at hp2
      rcases hor with ⟨k2, hk2, h1, h2⟩ | h
      · cases hk2
        exact Or.inl (hG.block_quiet hb h1 h2 (by rw [hs]; simpa using fun h => hxu h.symm) hp2)
      · rw [List.getElem?_eq_none h] at hp2; cases hp2

/-- the batch call of thread `i` has ended with result `res`: every slot of its block is quiet -/
theorem finish_ok (hG : G ne0 D bs phs s held) (hi : i < bs.length) {k : BK} (hb : bs[i]? = some (some k))
    (phs1 : List Ph) (hlen : phs1.length = phs.length)
    (hsame : ∀ x, ¬ (k.base ≤ x ∧ x < k.base + k.n) → phs1[x]? = phs[x]?)
    (hquiet : ∀ x ph, k.base ≤ x → x < k.base + k.n → phs1[x]? = some ph → ph.quiet)
    (s' : St) (held' : List Key) (hJ : J ne0 D phs1 s' held') (res : Res) :
    StepOK ne0 D bs phs i (some k) (.done res) s' held' := by
  obtain ⟨hok, ⟨r, hr⟩, hT, hE⟩ := hG.ok i k hb
  have hr1 : phs1[i]? = some (.fin r) := by rw [hsame i (by omega)]; exact hr
  have hJ2 : J ne0 D (phs1.set i (.fin res)) s' held' := by
    have := hJ.step_same hr1 (.fin res) s'.ne held' (Nat.le_refl _) (fun x K h => by simp [Exc] at h) trivial
      (fun _ _ _ _ _ _ h => h) (fun k hk => by simp [Ph.holds] at hk) (fun x hx => by simp [Ph.creates] at hx)
    simpa using this
  have hst : ∀ x, x < phs.length → x ≠ i → ¬ inBlk (some k) x → (phs1.set i (.fin res))[x]? = phs[x]? := by
    intro x _ hx hnb
    rw [set_ne _ hx]
    exact hsame x (fun h => hnb ⟨k, rfl, h.1, h.2⟩)
  refine ⟨none, phs1.set i (.fin res), ⟨.fin res, set_eq _ hr1, rfl⟩, ?_, by simp [hlen], hst, fun x _ h => by obtain ⟨k, hk, _⟩ := h; cases hk⟩
  refine hG.update hi hb none _ s' held' hJ2 (by simp [hlen]) hst (by intro k' h; cases h) ?_
  intro x ph2 hx hp2 hor
  rw [set_ne _ (by omega)] at hp2
  rcases hor with ⟨k2, hk2, h1, h2⟩ | h
  · cases hk2; exact Or.inl (hquiet x ph2 h1 h2 hp2)
  · rw [List.getElem?_eq_none (by omega)] at hp2; cases hp2

/-- `allocEs`: the validated items `0 .. m-1` of a block are handed the ids `s.ne+1 ..` -/
theorem alloc_edges (base : Nat) (items : List EdgeIn) (held0 : List Key) :
    ∀ (m : Nat) (phs0 : List Ph) (s0 : St), m ≤ items.length → J ne0 D phs0 s0 held0 →
      (∀ x e, x < items.length → items[x]? = some e → phs0[base + x]? = some (.ceAl e.a e.b e.d e.ty e.v)) →
      ∃ phs', J ne0 D phs' { s0 with ne := s0.ne + m } held0 ∧ phs'.length = phs0.length ∧
        (∀ x, ¬ (base ≤ x ∧ x < base + m) → phs'[x]? = phs0[x]?) ∧
        (∀ x e, x < m → items[x]? = some e → phs'[base + x]? = some (e.pre (s0.ne + 1 + x))) := by
  intro m
  induction m with
  | zero =>
    intro phs0 s0 _ hJ _
    exact ⟨phs0, hJ, rfl, fun _ _ => rfl, fun x e hx _ => absurd hx (Nat.not_lt_zero _)⟩
  | succ m ih =>
    intro phs0 s0 hm hJ hsl
    obtain ⟨phs1, hJ1, hl1, hs1, hr1⟩ := ih phs0 s0 (by omega) hJ hsl
    have hmlt : m < items.length := by omega
    have hem : items[m]? = some items[m] := List.getElem?_eq_getElem hmlt
    have hslot : phs1[base + m]? = some (.ceAl items[m].a items[m].b items[m].d items[m].ty items[m].v) := by
      rw [hs1 (base + m) (by omega)]; exact hsl m _ hmlt hem
    obtain ⟨ha, hb⟩ : nodeEx s0.kv items[m].a = true ∧ nodeEx s0.kv items[m].b = true := hJ1.loc _ _ hslot
    have hJ2 := hJ1.step_same hslot (items[m].pre (s0.ne + 1 + m)) (s0.ne + (m + 1)) held0
      (by simp) (fun x K h => by simp [Exc] at h)
      (by
        simp only [EdgeIn.pre, Local]
        refine ⟨hJ1.fresh _ (by simp), ?_, by omega, ha, hb⟩
        have := hJ1.ne_ge; simp at this; omega)
      (fun _ _ _ _ _ _ h => h) (fun k hk => by simp [EdgeIn.pre, Ph.holds] at hk)
      (fun x hx => by simp [EdgeIn.pre, Ph.creates] at hx; subst hx; right; simp)
      (by intro x hx; simp [EdgeIn.pre, Ph.makes] at hx)
    refine ⟨phs1.set (base + m) (items[m].pre (s0.ne + 1 + m)), by simpa using hJ2, by simp [hl1], ?_, ?_⟩
    · intro x hx
      rw [set_ne _ (by omega)]; exact hs1 x (by omega)
    · intro x e hx he
      by_cases hxm : x = m
      · subst hxm
        rw [hem] at he; cases he
        exact set_eq _ hslot
      · rw [set_ne _ (by omega)]; exact hr1 x e (by omega) he

/-- `allocNs`: the items `0 .. m-1` of a block are handed the node ids `s.nn+1 ..` -/
theorem alloc_nodes (base : Nat) (items : List (Nat × Nat)) (held0 : List Key) :
    ∀ (m : Nat) (phs0 : List Ph) (s0 : St), m ≤ items.length → J ne0 D phs0 s0 held0 →
      (∀ x, x < items.length → phs0[base + x]? = some (.fin .ok)) →
      ∃ phs', J ne0 D phs' { s0 with nn := s0.nn + m } held0 ∧ phs'.length = phs0.length ∧
        (∀ x, ¬ (base ≤ x ∧ x < base + m) → phs'[x]? = phs0[x]?) ∧
        (∀ x lv, x < m → items[x]? = some lv → phs'[base + x]? = some (.cnP1 (s0.nn + 1 + x) lv.1 lv.2)) := by
  intro m
  induction m with
  | zero =>
    intro phs0 s0 _ hJ _
    exact ⟨phs0, hJ, rfl, fun _ _ => rfl, fun x e hx _ => absurd hx (Nat.not_lt_zero _)⟩
  | succ m ih =>
    intro phs0 s0 hm hJ hsl
    obtain ⟨phs1, hJ1, hl1, hs1, hr1⟩ := ih phs0 s0 (by omega) hJ hsl
    have hmlt : m < items.length := by omega
    have hem : items[m]? = some items[m] := List.getElem?_eq_getElem hmlt
    have hslot : phs1[base + m]? = some (.fin .ok) := by
      rw [hs1 (base + m) (by omega)]; exact hsl m hmlt
    have hJ2 := hJ1.step_cnt hslot (.cnP1 (s0.nn + 1 + m) items[m].1 items[m].2) s0.ne (s0.nn + (m + 1)) held0
      (by simp) (by simp) (fun x K h => by simp [Exc] at h)
      (by simp only [Local]; exact hJ1.freshN _ (by simp))
      (fun _ _ _ _ _ _ h => h) (fun k hk => by simp [Ph.holds] at hk) (fun x hx => by simp [Ph.creates] at hx)
      (fun x hx => by simp [Ph.makes] at hx; subst hx; right; simp; omega)
    refine ⟨phs1.set (base + m) (.cnP1 (s0.nn + 1 + m) items[m].1 items[m].2), by simpa using hJ2, by simp [hl1], ?_, ?_⟩
    · intro x hx
      rw [set_ne _ (by omega)]; exact hs1 x (by omega)
    · intro x e hx he
      by_cases hxm : x = m
      · subst hxm
        rw [hem] at he; cases he
        exact set_eq _ hslot
      · rw [set_ne _ (by omega)]; exact hr1 x e (by omega) he

/-- the batch call of thread `i` goes on (`k'`, same block): the general form -/
theorem block_ok (hG : G ne0 D bs phs s held) (hi : i < bs.length) {k : BK} (hb : bs[i]? = some (some k))
    (k' : BK) (hkb : k'.base = k.base) (hkn : k'.n = k.n) (phs1 : List Ph) (hlen : phs1.length = phs.length)
    (hsame : ∀ x, ¬ (k.base ≤ x ∧ x < k.base + k.n) → phs1[x]? = phs[x]?)
    (s' : St) (held' : List Key) (hJ : J ne0 D phs1 s' held')
    (hok' : k'.ok ne0 D phs1)
    (hq : ∀ x ph, k.base ≤ x → x < k.base + k.n → phs1[x]? = some ph → ph.quiet ∨ k'.slot = some x) :
    StepOK ne0 D bs phs i (some k) (k'.prog phs1) s' held' := by
  obtain ⟨hok, ⟨r, hr⟩, hT, hE⟩ := hG.ok i k hb
  have hst : ∀ x, x < phs.length → x ≠ i → ¬ inBlk (some k) x → phs1[x]? = phs[x]? :=
    fun x _ _ hnb => hsame x (fun h => hnb ⟨k, rfl, h.1, h.2⟩)
  refine ⟨some k', phs1, rfl, ?_, by omega, hst, fun x _ h => by
    obtain ⟨k2, hk2, h1, h2⟩ := h; cases hk2; exact ⟨k, rfl, by omega, by omega⟩⟩
  refine hG.update hi hb (some k') _ s' held' hJ (by omega) hst ?_ ?_
  · intro k2 hk2
    cases hk2
    exact ⟨hok', ⟨r, by rw [hsame i (by omega)]; exact hr⟩, by omega, Or.inl ⟨k, rfl, hkb, hkn⟩⟩
  · intro x ph2 hx hp2 hor
    rcases hor with ⟨k2, hk2, h1, h2⟩ | h
    · cases hk2
      rcases hq x ph2 h1 h2 hp2 with h | h
      · exact Or.inl h
      · exact Or.inr ⟨k', rfl, h⟩
    · rw [List.getElem?_eq_none (by omega)] at hp2; cases hp2

/-- thread `i` enters a batch call: a new block of `n` slots at the end of the list -/
theorem enter_ok (hG : G ne0 D bs phs s held) (hi : i < bs.length) (hb : bs[i]? = some none) {r : Res}
    (hp : phs[i]? = some (.fin r)) (k' : BK) (hkb : k'.base = phs.length) (phs1 : List Ph)
    (hlen : phs1.length = phs.length + k'.n) (hsame : ∀ x, x < phs.length → phs1[x]? = phs[x]?)
    (s' : St) (held' : List Key) (hJ : J ne0 D phs1 s' held')
    (hok' : k'.ok ne0 D phs1)
    (hq : ∀ x ph, phs.length ≤ x → phs1[x]? = some ph → ph.quiet ∨ k'.slot = some x) :
    StepOK ne0 D bs phs i none (k'.prog phs1) s' held' := by
  have hst : ∀ x, x < phs.length → x ≠ i → ¬ inBlk none x → phs1[x]? = phs[x]? := fun x hx _ _ => hsame x hx
  have hil : i < phs.length := Nat.lt_of_lt_of_le hi hG.le
  refine ⟨some k', phs1, rfl, ?_, by omega, hst, fun x hx h => by
    obtain ⟨k2, hk2, h1, h2⟩ := h; cases hk2; omega⟩
  refine hG.update hi hb (some k') _ s' held' hJ (by omega) hst ?_ ?_
  · intro k2 hk2
    cases hk2
    exact ⟨hok', ⟨r, by rw [hsame i hil]; exact hp⟩, by omega, Or.inr ⟨rfl, hkb⟩⟩
  · intro x ph2 hx hp2 hor
    rcases hor with ⟨k2, hk2, _⟩ | h
    · cases hk2
    · rcases hq x ph2 h hp2 with h | h
      · exact Or.inl h
      · exact Or.inr ⟨k', rfl, h⟩

/-- the operations of the extended theorem: the single operations of `quiescent_wf_partial`,
    `batch_create_nodes`, `batch_create_edges` and `batch_update_nodes` with any arguments,
    `batch_delete_edges` of ids that may be deleted -/
def Op.admB (ne0 : Nat) (D : Nat → Prop) : Op → Prop
  | .batchCreateEdges _ => True
  | .batchCreateNodes _ => True
  | .batchDeleteEdges ids => ∀ e ∈ ids, e ≤ ne0 ∧ D e
  | .batchUpdateNodes _ => True
  | op => op.adm2 ne0 D

theorem quiet_fin (r : Res) : (Ph.fin r).quiet := fun x K h => by simp [Exc] at h

theorem get_replicate_fin {phs : List Ph} {n x : Nat} (h1 : phs.length ≤ x) (h2 : x < phs.length + n) :
    (phs ++ List.replicate n (Ph.fin .ok))[x]? = some (.fin .ok) := by
  rw [List.getElem?_append_right h1, List.getElem?_replicate]
  simp; omega

theorem append_old {phs : List Ph} {n x : Nat} (h : x < phs.length) :
    (phs ++ List.replicate n (Ph.fin .ok))[x]? = phs[x]? := List.getElem?_append_left h

/-- thread `i` has finished an operation (`phs[i] = fin r`) and starts the next one -/
theorem enter_op (hG : G ne0 D bs phs s held) (hi : i < bs.length) (hb : bs[i]? = some none) {r : Res}
    (hp : phs[i]? = some (.fin r)) (op : Op) (hadm : op.admB ne0 D) :
    StepOK ne0 D bs phs i none op.prog s held := by
  have single : op.adm2 ne0 D → StepOK ne0 D bs phs i none op.prog s held := by
    intro ha
    have hc : Cfg.silent Op.prog false ⟨(Ph.fin r).prog, [op], [], s, held⟩ = some ⟨op.prog, [], [r], s, held⟩ := by
      simp [Cfg.silent, Ph.prog]
    obtain ⟨ph', p1, _, p3⟩ := silent_pres hG.j hp [op] (by simpa using ha) false [] _ hc
    have := plain_ok hG hi hb hp ph' s held p3
    simp only at p1
    rw [p1]; exact this
  have finish : ∀ res, StepOK ne0 D bs phs i none (.done res) s held := by
    intro res
    have hJ2 := hG.j.step_same hp (.fin res) s.ne held (Nat.le_refl _) (fun x K h => by simp [Exc] at h) trivial
      (fun _ _ _ _ _ _ h => h) (fun k hk => by simp [Ph.holds] at hk) (fun x hx => by simp [Ph.creates] at hx)
    exact plain_ok hG hi hb hp (.fin res) s held (by simpa using hJ2)
  cases op with
  | createNode l v => exact single (by simpa [Op.admB] using hadm)
  | createEdge a b d ty v => exact single (by simpa [Op.admB] using hadm)
  | deleteEdge e => exact single (by simpa [Op.admB] using hadm)
  | deleteNode n h => simp [Op.admB, Op.adm2] at hadm
  | updateNode n lab v => exact single (by simpa [Op.admB] using hadm)
  | updateEdge e v => exact single (by simpa [Op.admB] using hadm)
  | addLabel n l => exact single (by simpa [Op.admB] using hadm)
  | removeLabel n l => exact single (by simpa [Op.admB] using hadm)
  | batchDeleteNodes ids => simp [Op.admB, Op.adm2] at hadm
  | batchUpdateNodes us =>
    by_cases hne : us = []
    · subst hne; exact finish _
    · have hpos : 0 < us.length := by cases us <;> simp_all
      have hprog : (Op.batchUpdateNodes us).prog = (BK.unV phs.length us 0).prog
          (phs ++ List.replicate us.length (.fin .ok)) := by
        simp [Op.prog, batchUpdateNodesProg, BK.prog]
      rw [hprog]
      refine enter_ok hG hi hb hp _ rfl _ (by simp [BK.n]) (fun x hx => append_old hx) s held
        (hG.j.append_fin _) ?_ ?_
      · exact ⟨hpos, fun x hx => get_replicate_fin (by omega) (by omega)⟩
      · intro x ph2 hx hp2
        rcases get_append_fin hp2 with h | rfl
        · rw [List.getElem?_eq_none hx] at h; cases h
        · exact Or.inl (quiet_fin _)
  | batchCreateEdges items =>
    by_cases hne : items = []
    · subst hne; exact finish _
    · have hemp : items.isEmpty = false := by cases items <;> simp_all
      have hprog : (Op.batchCreateEdges items).prog = (BK.ceV phs.length items 0 false).prog
          (phs ++ List.replicate items.length (.fin .ok)) := by
        simp [Op.prog, batchCreateEdgesProg, hemp, BK.prog, bceC]
      rw [hprog]
      refine enter_ok hG hi hb hp _ rfl _ (by simp [BK.n]) (fun x hx => append_old hx) s held
        (hG.j.append_fin _) ?_ ?_
      · refine ⟨Nat.zero_le _, by simp, hne, fun x e hx _ => absurd hx (Nat.not_lt_zero _), by simp, ?_⟩
        intro x _ _ hx
        exact get_replicate_fin (by omega) (by omega)
      · intro x ph2 hx hp2
        rcases get_append_fin hp2 with h | rfl
        · rw [List.getElem?_eq_none hx] at h; cases h
        · exact Or.inl (quiet_fin _)
  | batchCreateNodes items =>
    by_cases hne : items = []
    · subst hne; exact finish _
    · have hemp : items.isEmpty = false := by cases items <;> simp_all
      have hprog : (Op.batchCreateNodes items).prog = (BK.cnA phs.length items).prog
          (phs ++ List.replicate items.length (.fin .ok)) := by
        simp [Op.prog, batchCreateNodesProg, hemp, BK.prog, bcnC]
      rw [hprog]
      refine enter_ok hG hi hb hp _ rfl _ (by simp [BK.n]) (fun x hx => append_old hx) s held
        (hG.j.append_fin _) ?_ ?_
      · exact ⟨hne, fun x hx => get_replicate_fin (by omega) (by omega)⟩
      · intro x ph2 hx hp2
        rcases get_append_fin hp2 with h | rfl
        · rw [List.getElem?_eq_none hx] at h; cases h
        · exact Or.inl (quiet_fin _)
  | batchDeleteEdges ids =>
    cases ids with
    | nil => exact finish _
    | cons e0 es =>
      have hall : ∀ e ∈ e0 :: es, e ≤ ne0 ∧ D e := by simpa [Op.admB] using hadm
      have hslot : (phs ++ List.replicate (e0 :: es).length (Ph.fin .ok))[phs.length + 0]? = some (.fin .ok) :=
        get_replicate_fin (by omega) (by simp)
      have hJ1 := (hG.j.append_fin (e0 :: es).length).step_same hslot (.deA e0) s.ne held (Nat.le_refl _)
        (fun x K h => by simp [Exc] at h) (by simp only [Local]; exact hall e0 (by simp))
        (fun _ _ _ _ _ _ h => h) (fun k hk => by simp [Ph.holds] at hk) (fun x hx => by simp [Ph.creates] at hx)
      have hprog : (Op.batchDeleteEdges (e0 :: es)).prog = (BK.deL phs.length (e0 :: es) 0 [] []).prog
          ((phs ++ List.replicate (e0 :: es).length (Ph.fin .ok)).set (phs.length + 0) (Ph.deA e0)) := by
        simp only [Op.prog, batchDeleteEdgesProg, BK.prog, slotProg, set_eq _ hslot]
        exact bdeLoop_drop (e0 :: es) 0 e0 [] [] rfl
      rw [hprog]
      refine enter_ok hG hi hb hp _ rfl _ (by simp [BK.n]) ?_ s held (by simpa using hJ1) ?_ ?_
      · intro x hx
        rw [set_ne _ (by omega)]; exact append_old hx
      · refine ⟨by simp, ⟨.deA e0, set_eq _ hslot, rfl⟩, hall, ?_⟩
        intro x hx1 hx2
        rw [set_ne _ (by omega)]
        exact get_replicate_fin (by omega) (by omega)
      · intro x ph2 hx hp2
        by_cases hx0 : x = phs.length + 0
        · subst hx0; exact Or.inr (by simp [BK.slot])
        · rw [set_ne _ hx0] at hp2
          rcases get_append_fin hp2 with h | rfl
          · rw [List.getElem?_eq_none hx] at h; cases h
          · exact Or.inl (quiet_fin _)

def BK.kont : BK → Res → Prog
  | .ceL _ items start j => bceK start items j
  | .cnL _ items start j => bcnK start items j
  | .deL _ ids j del fl => bdeK ids j (ids.getD j 0) del fl
  | .unL _ us j cnt => bunK us j cnt
  | _ => fun _ => .done .ok

theorem BK.prog_slot {k : BK} {u : Nat} (hs : k.slot = some u) (phs2 : List Ph) :
    k.prog phs2 = slotProg phs2 u k.kont := by
  cases k <;> simp [BK.slot] at hs <;> subst hs <;> rfl

theorem quiet_pre (e : EdgeIn) (x : Nat) : (e.pre x).quiet := fun y K h => by simp [EdgeIn.pre, Exc] at h

/-- the driven slot has made a step (to `ph'`, `J` holds again): stay in the item, go to the next
    item, or end the batch call -/
theorem advance (hG : G ne0 D bs phs s held) (hi : i < bs.length) {k : BK} (hb : bs[i]? = some (some k))
    {u : Nat} (hs : k.slot = some u) {ph : Ph} (hu : phs[u]? = some ph) (ph' : Ph)
    (s' : St) (held' : List Key) (hJ : J ne0 D (phs.set u ph') s' held') :
    StepOK ne0 D bs phs i (some k) (ph'.prog.bind k.kont) s' held' := by
  by_cases hnd : ph'.prog.isDone = false
  · refine drive_ok hG hi hb hs hu ph' hnd s' held' hJ k.kont ?_
    intro phs2 h2
    rw [BK.prog_slot hs, slotProg, h2]
  · obtain ⟨r, rfl⟩ := isDone_of_prog_done (by simpa using hnd)
    obtain ⟨hok, ⟨r0, hr0⟩, hT, hE⟩ := hG.ok i k hb
    obtain ⟨hu1, hu2⟩ := BK.slot_in hok hs
    have hlen : (phs.set u (Ph.fin r)).length = phs.length := by simp
    have hsame : ∀ x, ¬ (k.base ≤ x ∧ x < k.base + k.n) → (phs.set u (Ph.fin r))[x]? = phs[x]? :=
      fun x hx => set_ne _ (by omega)
    -- every slot of the block but the driven one is quiet, the driven one has ended
    have hqs : ∀ x ph2, k.base ≤ x → x < k.base + k.n → (phs.set u (Ph.fin r))[x]? = some ph2 → x ≠ u + 1 → ph2.quiet := by
      intro x ph2 h1 h2 hp2 _
      by_cases hxu : x = u
      · subst hxu; rw [set_eq _ hu] at hp2; cases hp2; exact quiet_fin _
      · rw [set_ne _ hxu] at hp2
        exact hG.block_quiet hb h1 h2 (by rw [hs]; simpa using fun h => hxu h.symm) hp2
    have hqall : (∀ x ph2, k.base ≤ x → x < k.base + k.n → phs[x]? = some ph2 → x ≠ u → ph2.quiet) :=
      fun x ph2 h1 h2 hp2 hxu => hG.block_quiet hb h1 h2 (by rw [hs]; simpa using fun h => hxu h.symm) hp2
    have hfin : ∀ res, StepOK ne0 D bs phs i (some k) (.done res) s' held' := by
      intro res
      refine finish_ok hG hi hb _ hlen hsame ?_ s' held' hJ res
      intro x ph2 h1 h2 hp2
      by_cases hxu : x = u
      · subst hxu; rw [set_eq _ hu] at hp2; cases hp2; exact quiet_fin _
      · rw [set_ne _ hxu] at hp2; exact hqall x ph2 h1 h2 hp2 hxu
    cases k with
    | ceV base items j sec => simp [BK.slot] at hs
    | cnA base items => simp [BK.slot] at hs
    | ceL base items start j =>
      simp [BK.slot] at hs; subst hs
      obtain ⟨h1, _, h3⟩ := hok
      simp only [Ph.prog, Prog.bind, BK.kont, bceK]
      by_cases hj : j + 1 < items.length
      · have he : items[j + 1]? = some items[j + 1] := List.getElem?_eq_getElem hj
        have hnext : (phs.set (base + j) (Ph.fin r))[base + (j + 1)]? = some (items[j + 1].pre (start + (j + 1))) := by
          rw [set_ne _ (by omega)]; exact h3 (j + 1) _ (by omega) he
        have hp : bceLoop start (items.drop (j + 1)) (j + 1) (.done (.ids start items.length)) =
            (BK.ceL base items start (j + 1)).prog (phs.set (base + j) (Ph.fin r)) := by
          simp only [BK.prog, slotProg, hnext, bceK]
          exact bceLoop_drop start items (j + 1) _ _ he
        rw [hp]
        refine block_ok hG hi hb (BK.ceL base items start (j + 1)) rfl rfl _ hlen hsame s' held' hJ ⟨hj, ⟨_, hnext, rfl⟩, ?_⟩ ?_
        · intro x e hx he2
          rw [set_ne _ (by omega)]; exact h3 x e (by omega) he2
        · intro x ph2 hx1 hx2 hp2
          by_cases hxn : x = base + j + 1
          · right; simp [BK.slot]; omega
          · left; exact hqs x ph2 hx1 hx2 hp2 hxn
      · have : items.drop (j + 1) = [] := List.drop_eq_nil_of_le (by omega)
        rw [this]
        exact hfin _
    | cnL base items start j =>
      simp [BK.slot] at hs; subst hs
      obtain ⟨h1, _, h3⟩ := hok
      simp only [Ph.prog, Prog.bind, BK.kont, bcnK]
      by_cases hj : j + 1 < items.length
      · have he : items[j + 1]? = some items[j + 1] := List.getElem?_eq_getElem hj
        have hnext : (phs.set (base + j) (Ph.fin r))[base + (j + 1)]? =
            some (.cnP1 (start + (j + 1)) items[j + 1].1 items[j + 1].2) := by
          rw [set_ne _ (by omega)]; exact h3 (j + 1) _ (by omega) he
        have hp : bcnLoop start (items.drop (j + 1)) (j + 1) (.done (.ids start items.length)) =
            (BK.cnL base items start (j + 1)).prog (phs.set (base + j) (Ph.fin r)) := by
          simp only [BK.prog, slotProg, hnext, bcnK]
          exact bcnLoop_drop start items (j + 1) _ _ he
        rw [hp]
        refine block_ok hG hi hb (BK.cnL base items start (j + 1)) rfl rfl _ hlen hsame s' held' hJ ⟨hj, ⟨_, hnext, rfl⟩, ?_⟩ ?_
        · intro x e hx he2
          rw [set_ne _ (by omega)]; exact h3 x e (by omega) he2
        · intro x ph2 hx1 hx2 hp2
          by_cases hxn : x = base + j + 1
          · right; simp [BK.slot]; omega
          · left; exact hqs x ph2 hx1 hx2 hp2 hxn
      · have : items.drop (j + 1) = [] := List.drop_eq_nil_of_le (by omega)
        rw [this]
        exact hfin _
    | deL base ids j del fl =>
      simp [BK.slot] at hs; subst hs
      obtain ⟨h1, _, h3, h4⟩ := hok
      -- the lists of deleted / failed ids after this item
      obtain ⟨del', fl', hk⟩ : ∃ del' fl', bdeK ids j (ids.getD j 0) del fl r = bdeLoop (ids.drop (j + 1)) (j + 1) del' fl' := by
        cases r <;> exact ⟨_, _, rfl⟩
      simp only [Ph.prog, Prog.bind, BK.kont]
      rw [hk]
      by_cases hj : j + 1 < ids.length
      · have he : ids[j + 1]? = some ids[j + 1] := List.getElem?_eq_getElem hj
        have hslot : (phs.set (base + j) (Ph.fin r))[base + (j + 1)]? = some (.fin .ok) := by
          rw [set_ne _ (by omega)]; exact h4 (j + 1) (by omega) hj
        have hJ2 := hJ.step_same hslot (.deA ids[j + 1]) s'.ne held' (Nat.le_refl _)
          (fun x K h => by simp [Exc] at h) (by simp only [Local]; exact h3 _ (List.getElem_mem hj))
          (fun _ _ _ _ _ _ h => h) (fun k hk => by simp [Ph.holds] at hk) (fun x hx => by simp [Ph.creates] at hx)
        have hnext : ((phs.set (base + j) (Ph.fin r)).set (base + (j + 1)) (Ph.deA ids[j + 1]))[base + (j + 1)]? =
            some (.deA ids[j + 1]) := set_eq _ hslot
        have hgd : ids.getD (j + 1) 0 = ids[j + 1] := by simp [List.getD, he]
        have hp : bdeLoop (ids.drop (j + 1)) (j + 1) del' fl' =
            (BK.deL base ids (j + 1) del' fl').prog ((phs.set (base + j) (Ph.fin r)).set (base + (j + 1)) (Ph.deA ids[j + 1])) := by
          simp only [BK.prog, slotProg, hnext, hgd]
          exact bdeLoop_drop ids (j + 1) _ _ _ he
        rw [hp]
        refine block_ok hG hi hb (BK.deL base ids (j + 1) del' fl') rfl rfl _ (by simp) ?_ s' held' (by simpa using hJ2) ⟨hj, ⟨_, hnext, rfl⟩, h3, ?_⟩ ?_
        · intro x hx
          rw [set_ne _ (by simp only [BK.base, BK.n] at hx; omega), set_ne _ (by simp only [BK.base, BK.n] at hx; omega)]
        · intro x hx1 hx2
          rw [set_ne _ (by omega), set_ne _ (by omega)]; exact h4 x (by omega) hx2
        · intro x ph2 hx1 hx2 hp2
          by_cases hxn : x = base + (j + 1)
          · right; simp [BK.slot]; omega
          · left
            rw [set_ne _ hxn] at hp2
            exact hqs x ph2 hx1 hx2 hp2 (by omega)
      · have : ids.drop (j + 1) = [] := List.drop_eq_nil_of_le (by omega)
        rw [this]
        exact hfin _
    | unV base us j => simp [BK.slot] at hs
    | unL base us j cnt =>
      simp [BK.slot] at hs; subst hs
      obtain ⟨h1, _, h4⟩ := hok
      obtain ⟨cnt', hk⟩ : ∃ cnt', bunK us j cnt r = bunLoop (us.drop (j + 1)) cnt' := by
        cases r <;> exact ⟨_, rfl⟩
      simp only [Ph.prog, Prog.bind, BK.kont]
      rw [hk]
      by_cases hj : j + 1 < us.length
      · have he : us[j + 1]? = some us[j + 1] := List.getElem?_eq_getElem hj
        have hslot : (phs.set (base + j) (Ph.fin r))[base + (j + 1)]? = some (.fin .ok) := by
          rw [set_ne _ (by omega)]; exact h4 (j + 1) (by omega) hj
        have hJ2 := hJ.step_same hslot (.unA us[j + 1].1 us[j + 1].2.1 us[j + 1].2.2) s'.ne held' (Nat.le_refl _)
          (fun x K h => by simp [Exc] at h) trivial
          (fun _ _ _ _ _ _ h => h) (fun k hk => by simp [Ph.holds] at hk) (fun x hx => by simp [Ph.creates] at hx)
        have hnext : ((phs.set (base + j) (Ph.fin r)).set (base + (j + 1)) (Ph.unA us[j + 1].1 us[j + 1].2.1 us[j + 1].2.2))[base + (j + 1)]? =
            some (.unA us[j + 1].1 us[j + 1].2.1 us[j + 1].2.2) := set_eq _ hslot
        have hp : bunLoop (us.drop (j + 1)) cnt' =
            (BK.unL base us (j + 1) cnt').prog ((phs.set (base + j) (Ph.fin r)).set (base + (j + 1)) (Ph.unA us[j + 1].1 us[j + 1].2.1 us[j + 1].2.2)) := by
          simp only [BK.prog, slotProg, hnext]
          exact bunLoop_drop us (j + 1) _ _ he
        rw [hp]
        refine block_ok hG hi hb (BK.unL base us (j + 1) cnt') rfl rfl _ (by simp) ?_ s' held' (by simpa using hJ2) ⟨hj, ⟨_, hnext, rfl⟩, ?_⟩ ?_
        · intro x hx
          rw [set_ne _ (by simp only [BK.base, BK.n] at hx; omega), set_ne _ (by simp only [BK.base, BK.n] at hx; omega)]
        · intro x hx1 hx2
          rw [set_ne _ (by omega), set_ne _ (by omega)]; exact h4 x (by omega) hx2
        · intro x ph2 hx1 hx2 hp2
          by_cases hxn : x = base + (j + 1)
          · right; simp [BK.slot]; omega
          · left
            rw [set_ne _ hxn] at hp2
            exact hqs x ph2 hx1 hx2 hp2 (by omega)
      · have : us.drop (j + 1) = [] := List.drop_eq_nil_of_le (by omega)
        rw [this]
        exact hfin _

theorem quiet_ceAl (a b : Nat) (d : Bool) (ty v : Nat) : (Ph.ceAl a b d ty v).quiet := fun y K h => by simp [Exc] at h
theorem quiet_ceB (a b : Nat) (d : Bool) (ty v : Nat) : (Ph.ceB a b d ty v).quiet := fun y K h => by simp [Exc] at h
theorem quiet_cnP1 (id l v : Nat) : (Ph.cnP1 id l v).quiet := fun y K h => by simp [Exc] at h

/-- the slots of a block in its validation phase are quiet -/
theorem ceV_quiet {base : Nat} {items : List EdgeIn} {j : Nat} {sec : Bool}
    (hok : (BK.ceV base items j sec).ok ne0 D phs) (x : Nat) (ph2 : Ph) (h1 : base ≤ x) (h2 : x < base + items.length)
    (hp2 : phs[x]? = some ph2) : ph2.quiet := by
  obtain ⟨o1, o2, o3, o4, o5, o6⟩ := hok
  have hx : x = base + (x - base) := by omega
  have hlt : x - base < items.length := by omega
  have he : items[x - base]? = some items[x - base] := List.getElem?_eq_getElem hlt
  rw [hx] at hp2
  by_cases c1 : x - base < j
  · rw [o4 _ _ c1 he] at hp2; cases hp2; exact quiet_ceAl _ _ _ _ _
  · by_cases c2 : sec = true ∧ x - base = j
    · obtain ⟨c2a, c2b⟩ := c2
      have he' : items[j]? = some items[x - base] := by rw [← c2b]; exact he
      rw [c2b] at hp2
      rw [o5 _ c2a he'] at hp2; cases hp2; exact quiet_ceB _ _ _ _ _
    · rw [o6 (x - base) (by omega) (fun hs => by
        rcases Nat.lt_or_ge j (x - base) with h | h
        · exact h
        · exact absurd ⟨hs, by omega⟩ c2) hlt] at hp2
      cases hp2; exact quiet_fin _

/-- a store call of the validation phase of `batch_create_edges` -/
theorem ceV_store (hG : G ne0 D bs phs s held) (hi : i < bs.length) {base : Nat} {items : List EdgeIn} {j : Nat} {sec : Bool}
    (hb : bs[i]? = some (some (.ceV base items j sec)))
    (hlab : ((BK.ceV base items j sec).prog phs).label.isSome = true) :
    StepOK ne0 D bs phs i (some (.ceV base items j sec)) (((BK.ceV base items j sec).prog phs).step s).1
      (((BK.ceV base items j sec).prog phs).step s).2 held := by
  obtain ⟨hok, ⟨r0, hr0⟩, hT, hE⟩ := hG.ok i _ hb
  have hok0 := hok
  obtain ⟨o1, o2, o3, o4, o5, o6⟩ := hok
  have hfin : ∀ res, StepOK ne0 D bs phs i (some (.ceV base items j sec)) (.done res) s held :=
    fun res => finish_ok hG hi hb phs rfl (fun _ _ => rfl)
      (fun x ph2 h1 h2 hp2 => ceV_quiet hok0 x ph2 h1 (by simpa [BK.n, BK.base] using h2) hp2) s held hG.j res
  have hjlt : j < items.length := by
    cases sec with
    | true => exact o2 rfl
    | false =>
      rcases Nat.lt_or_ge j items.length with h | h
      · exact h
      · have : items.drop j = [] := List.drop_eq_nil_of_le h
        simp [BK.prog, this, bceValidate, bceC, Prog.label] at hlab
  have he : items[j]? = some items[j] := List.getElem?_eq_getElem hjlt
  cases sec with
  | false =>
    have hslot : phs[base + j]? = some (.fin .ok) := o6 j (Nat.le_refl _) (by simp) hjlt
    simp only [BK.prog, bceValidate_drop items j _ _ he, Prog.step]
    cases hn : (s.kv (.node items[j].a)).isSome with
    | false => simpa using hfin _
    | true =>
      have hJ1 := hG.j.step_same hslot (.ceB items[j].a items[j].b items[j].d items[j].ty items[j].v) s.ne held
        (Nat.le_refl _) (fun x K h => by simp [Exc] at h) (by simp only [Local]; exact hn)
        (fun _ _ _ _ _ _ h => h) (fun k hk => by simp [Ph.holds] at hk) (fun x hx => by simp [Ph.creates] at hx)
      have hp : (Prog.ex (Key.node items[j].b) fun okb =>
            if !okb then Prog.done (.batchInvalid j items[j].b)
            else bceValidate (items.drop (j + 1)) (j + 1) (bceC items)) =
          (BK.ceV base items j true).prog (phs.set (base + j) (.ceB items[j].a items[j].b items[j].d items[j].ty items[j].v)) := by
        simp [BK.prog, he]
      simp only [Bool.not_true, Bool.false_eq_true, if_false]
      rw [hp]
      refine block_ok hG hi hb (BK.ceV base items j true) rfl rfl _ (by simp) (fun x hx => set_ne _ (by simp only [BK.base, BK.n] at hx; omega))
        s held (by simpa using hJ1) ⟨o1, fun _ => hjlt, o3, ?_, ?_, ?_⟩ ?_
      · intro x e hx hex
        rw [set_ne _ (by omega)]; exact o4 x e hx hex
      · intro e _ hex
        rw [he] at hex; cases hex
        exact set_eq _ hslot
      · intro x hx1 hx2 hx3
        rw [set_ne _ (by have := hx2 rfl; omega)]; exact o6 x hx1 (by simp) hx3
      · intro x ph2 hx1 hx2 hp2
        left
        by_cases hxj : x = base + j
        · subst hxj; rw [set_eq _ hslot] at hp2; cases hp2; exact quiet_ceB _ _ _ _ _
        · rw [set_ne _ hxj] at hp2
          exact ceV_quiet hok0 x ph2 hx1 (by simpa [BK.n, BK.base] using hx2) hp2
  | true =>
    have hslot : phs[base + j]? = some (.ceB items[j].a items[j].b items[j].d items[j].ty items[j].v) := o5 _ rfl he
    have ha : nodeEx s.kv items[j].a = true := hG.j.loc _ _ hslot
    simp only [BK.prog, he, Prog.step]
    cases hn : (s.kv (.node items[j].b)).isSome with
    | false => simpa using hfin _
    | true =>
      have hJ1 := hG.j.step_same hslot (.ceAl items[j].a items[j].b items[j].d items[j].ty items[j].v) s.ne held
        (Nat.le_refl _) (fun x K h => by simp [Exc] at h) (by simp only [Local]; exact ⟨ha, hn⟩)
        (fun _ _ _ _ _ _ h => h) (fun k hk => by simp [Ph.holds] at hk) (fun x hx => by simp [Ph.creates] at hx)
      have hp : bceValidate (items.drop (j + 1)) (j + 1) (bceC items) =
          (BK.ceV base items (j + 1) false).prog (phs.set (base + j) (.ceAl items[j].a items[j].b items[j].d items[j].ty items[j].v)) := by
        simp [BK.prog]
      simp only [Bool.not_true, Bool.false_eq_true, if_false]
      rw [hp]
      refine block_ok hG hi hb (BK.ceV base items (j + 1) false) rfl rfl _ (by simp) (fun x hx => set_ne _ (by simp only [BK.base, BK.n] at hx; omega))
        s held (by simpa using hJ1) ⟨hjlt, by simp, o3, ?_, by simp, ?_⟩ ?_
      · intro x e hx hex
        by_cases hxj : x = j
        · subst hxj
          rw [he] at hex; cases hex
          exact set_eq _ hslot
        · rw [set_ne _ (by omega)]; exact o4 x e (by omega) hex
      · intro x hx1 _ hx3
        rw [set_ne _ (by omega)]; exact o6 x (by omega) (fun _ => by omega) hx3
      · intro x ph2 hx1 hx2 hp2
        left
        by_cases hxj : x = base + j
        · subst hxj; rw [set_eq _ hslot] at hp2; cases hp2; exact quiet_ceAl _ _ _ _ _
        · rw [set_ne _ hxj] at hp2
          exact ceV_quiet hok0 x ph2 hx1 (by simpa [BK.n, BK.base] using hx2) hp2

/-- `batch_create_edges` takes its block of ids: every validated item gets its id at once -/
theorem ceV_alloc (hG : G ne0 D bs phs s held) (hi : i < bs.length) {base : Nat} {items : List EdgeIn} {j : Nat}
    (hb : bs[i]? = some (some (.ceV base items j false))) (hj : items.length ≤ j) :
    StepOK ne0 D bs phs i (some (.ceV base items j false))
      (bceLoop (s.ne + 1) items 0 (.done (.ids (s.ne + 1) items.length))) { s with ne := s.ne + items.length } held := by
  obtain ⟨hok, ⟨r0, hr0⟩, hT, hE⟩ := hG.ok i _ hb
  obtain ⟨o1, o2, o3, o4, o5, o6⟩ := hok
  have hjn : j = items.length := by omega
  subst hjn
  obtain ⟨phs1, hJ1, hl1, hs1, hr1⟩ := alloc_edges base items held items.length phs s (Nat.le_refl _) hG.j
    (fun x e hx he => o4 x e hx he)
  have hpos : 0 < items.length := by cases items <;> simp_all
  have he0 : items[0]? = some items[0] := List.getElem?_eq_getElem hpos
  have hslot0 : phs1[base + 0]? = some (items[0].pre (s.ne + 1 + 0)) := hr1 0 _ hpos he0
  have hp : bceLoop (s.ne + 1) items 0 (.done (.ids (s.ne + 1) items.length)) =
      (BK.ceL base items (s.ne + 1) 0).prog phs1 := by
    simp only [BK.prog, slotProg, hslot0]
    exact bceLoop_drop (s.ne + 1) items 0 _ (.done (.ids (s.ne + 1) items.length)) he0
  rw [hp]
  refine block_ok hG hi hb (BK.ceL base items (s.ne + 1) 0) rfl rfl phs1 hl1
    (fun x hx => hs1 x (by simpa [BK.base, BK.n] using hx)) _ held hJ1 ⟨hpos, ⟨_, hslot0, rfl⟩, ?_⟩ ?_
  · intro x e hx he
    exact hr1 x e (lt_of_getElem? he) he
  · intro x ph2 hx1 hx2 hp2
    left
    simp only [BK.base, BK.n] at hx1 hx2
    have hx : x = base + (x - base) := by omega
    have hlt : x - base < items.length := by omega
    rw [hx, hr1 (x - base) _ hlt (List.getElem?_eq_getElem hlt)] at hp2
    cases hp2; exact quiet_pre _ _

/-- `batch_create_nodes` takes its block of node ids -/
theorem cnA_alloc (hG : G ne0 D bs phs s held) (hi : i < bs.length) {base : Nat} {items : List (Nat × Nat)}
    (hb : bs[i]? = some (some (.cnA base items))) :
    StepOK ne0 D bs phs i (some (.cnA base items))
      (bcnLoop (s.nn + 1) items 0 (.done (.ids (s.nn + 1) items.length))) { s with nn := s.nn + items.length } held := by
  obtain ⟨hok, ⟨r0, hr0⟩, hT, hE⟩ := hG.ok i _ hb
  obtain ⟨o1, o2⟩ := hok
  obtain ⟨phs1, hJ1, hl1, hs1, hr1⟩ := alloc_nodes base items held items.length phs s (Nat.le_refl _) hG.j o2
  have hpos : 0 < items.length := by cases items <;> simp_all
  have he0 : items[0]? = some items[0] := List.getElem?_eq_getElem hpos
  have hslot0 : phs1[base + 0]? = some (.cnP1 (s.nn + 1 + 0) items[0].1 items[0].2) := hr1 0 _ hpos he0
  have hp : bcnLoop (s.nn + 1) items 0 (.done (.ids (s.nn + 1) items.length)) =
      (BK.cnL base items (s.nn + 1) 0).prog phs1 := by
    simp only [BK.prog, slotProg, hslot0]
    exact bcnLoop_drop (s.nn + 1) items 0 _ (.done (.ids (s.nn + 1) items.length)) he0
  rw [hp]
  refine block_ok hG hi hb (BK.cnL base items (s.nn + 1) 0) rfl rfl phs1 hl1
    (fun x hx => hs1 x (by simpa [BK.base, BK.n] using hx)) _ held hJ1 ⟨hpos, ⟨_, hslot0, rfl⟩, ?_⟩ ?_
  · intro x e hx he
    exact hr1 x e (lt_of_getElem? he) he
  · intro x ph2 hx1 hx2 hp2
    left
    simp only [BK.base, BK.n] at hx1 hx2
    have hx : x = base + (x - base) := by omega
    have hlt : x - base < items.length := by omega
    rw [hx, hr1 (x - base) _ hlt (List.getElem?_eq_getElem hlt)] at hp2
    cases hp2; exact quiet_cnP1 _ _ _

/-- a store call of the validation phase of `batch_update_nodes` -/
theorem unV_store (hG : G ne0 D bs phs s held) (hi : i < bs.length) {base : Nat} {us : List (Nat × Option Nat × Nat)} {j : Nat}
    (hb : bs[i]? = some (some (.unV base us j))) :
    StepOK ne0 D bs phs i (some (.unV base us j)) (((BK.unV base us j).prog phs).step s).1
      (((BK.unV base us j).prog phs).step s).2 held := by
  obtain ⟨hok, ⟨r0, hr0⟩, hT, hE⟩ := hG.ok i _ hb
  obtain ⟨o1, o2⟩ := hok
  have he : us[j]? = some us[j] := List.getElem?_eq_getElem o1
  have hqall : ∀ x ph2, base ≤ x → x < base + us.length → phs[x]? = some ph2 → ph2.quiet := by
    intro x ph2 h1 h2 hp2
    have hx : x = base + (x - base) := by omega
    rw [hx, o2 (x - base) (by omega)] at hp2
    cases hp2; exact quiet_fin _
  simp only [BK.prog, bunValidate_drop us j _ _ he, Prog.step]
  cases hv : s.kv (.node us[j].1) with
  | none =>
    exact finish_ok hG hi hb phs rfl (fun _ _ => rfl)
      (fun x ph2 h1 h2 hp2 => hqall x ph2 h1 (by simpa [BK.n, BK.base] using h2) hp2) s held hG.j _
  | some val =>
    simp only
    by_cases hj : j + 1 < us.length
    · have hp : bunValidate (us.drop (j + 1)) (j + 1) (bunLoop us 0) = (BK.unV base us (j + 1)).prog phs := rfl
      rw [hp]
      exact block_ok hG hi hb (BK.unV base us (j + 1)) rfl rfl phs rfl (fun _ _ => rfl) s held hG.j ⟨hj, o2⟩
        (fun x ph2 h1 h2 hp2 => Or.inl (hqall x ph2 h1 (by simpa [BK.n, BK.base] using h2) hp2))
    · have hdrop : us.drop (j + 1) = [] := List.drop_eq_nil_of_le (by omega)
      have hpos : 0 < us.length := by omega
      have he0 : us[0]? = some us[0] := List.getElem?_eq_getElem hpos
      have hslot : phs[base + 0]? = some (.fin .ok) := o2 0 hpos
      have hJ2 := hG.j.step_same hslot (.unA us[0].1 us[0].2.1 us[0].2.2) s.ne held (Nat.le_refl _)
        (fun x K h => by simp [Exc] at h) trivial
        (fun _ _ _ _ _ _ h => h) (fun k hk => by simp [Ph.holds] at hk) (fun x hx => by simp [Ph.creates] at hx)
      have hnext : (phs.set (base + 0) (Ph.unA us[0].1 us[0].2.1 us[0].2.2))[base + 0]? = some (.unA us[0].1 us[0].2.1 us[0].2.2) :=
        set_eq _ hslot
      have hp : bunValidate (us.drop (j + 1)) (j + 1) (bunLoop us 0) =
          (BK.unL base us 0 0).prog (phs.set (base + 0) (Ph.unA us[0].1 us[0].2.1 us[0].2.2)) := by
        rw [hdrop]
        simp only [bunValidate, BK.prog, slotProg, hnext]
        exact bunLoop_drop us 0 0 _ he0
      rw [hp]
      refine block_ok hG hi hb (BK.unL base us 0 0) rfl rfl _ (by simp)
        (fun x hx => set_ne _ (by simp only [BK.base, BK.n] at hx; omega)) s held (by simpa using hJ2)
        ⟨hpos, ⟨_, hnext, rfl⟩, ?_⟩ ?_
      · intro x hx1 hx2
        rw [set_ne _ (by omega)]; exact o2 x hx2
      · intro x ph2 hx1 hx2 hp2
        by_cases hx0 : x = base + 0
        · right; simp [BK.slot]; omega
        · left
          rw [set_ne _ hx0] at hp2
          exact hqall x ph2 hx1 (by simpa [BK.n, BK.base] using hx2) hp2

/-- every store call of thread `i` keeps the invariant -/
theorem store_presB (hG : G ne0 D bs phs s held) (hi : i < bs.length) {b : Option BK} (hb : bs[i]? = some b)
    {p : Prog} (hcur : CurOK phs i b p) (hlab : p.label.isSome = true) :
    StepOK ne0 D bs phs i b (p.step s).1 (p.step s).2 held := by
  cases b with
  | none =>
    obtain ⟨ph, hp, rfl⟩ := hcur
    obtain ⟨ph', h1, h2⟩ := store_pres hG.j hp hlab
    rw [h1]; exact plain_ok hG hi hb hp ph' _ held h2
  | some k =>
    have hp : p = k.prog phs := hcur
    subst hp
    obtain ⟨hok, _⟩ := hG.ok i k hb
    cases hs : k.slot with
    | some u =>
      obtain ⟨ph, hu, hnd⟩ : ∃ ph, phs[u]? = some ph ∧ ph.prog.isDone = false := by
        cases k <;> simp [BK.slot] at hs <;> subst hs <;> exact hok.2.1
      have hpk : k.prog phs = ph.prog.bind k.kont := by rw [BK.prog_slot hs, slotProg, hu]
      rw [hpk] at hlab ⊢
      obtain ⟨ph', h1, h2⟩ := drive_store hG.j hu k.kont hnd hlab
      rw [show ((ph.prog.bind k.kont).step s) = (((ph.prog.bind k.kont).step s).1, ((ph.prog.bind k.kont).step s).2) from rfl, h1]
      exact advance hG hi hb hs hu ph' _ held h2
    | none =>
      cases k with
      | ceV base items j sec => exact ceV_store hG hi hb hlab
      | cnA base items => simp [BK.prog, bcnC, Prog.label] at hlab
      | ceL base items start j => simp [BK.slot] at hs
      | cnL base items start j => simp [BK.slot] at hs
      | deL base ids j del fl => simp [BK.slot] at hs
      | unV base us j => exact unV_store hG hi hb
      | unL base us j cnt => simp [BK.slot] at hs

/-- every silent step of thread `i` keeps the invariant -/
theorem silent_presB (hG : G ne0 D bs phs s held) (hi : i < bs.length) {b : Option BK} (hb : bs[i]? = some b)
    {p : Prog} (hcur : CurOK phs i b p) (rest : List Op) (hadm : ∀ op ∈ rest, op.admB ne0 D)
    (take : Bool) (rs : List Res) (c' : Cfg)
    (h : Cfg.silent Op.prog take ⟨p, rest, rs, s, held⟩ = some c') :
    StepOK ne0 D bs phs i b c'.p c'.s c'.held ∧ ∀ op ∈ c'.rest, op.admB ne0 D := by
  cases b with
  | none =>
    obtain ⟨ph, hp, rfl⟩ := hcur
    by_cases hnd : ph.prog.isDone = false
    · rw [silent_rest _ _ _ _ _ _ _ hnd] at h
      cases h0 : Cfg.silent Op.prog take ⟨ph.prog, [], rs, s, held⟩ with
      | none => simp [h0] at h
      | some c0 =>
        simp [h0] at h
        obtain ⟨ph', p1, _, p3⟩ := silent_pres hG.j hp [] (by simp) take rs c0 h0
        subst h
        simp only
        rw [p1]
        exact ⟨plain_ok hG hi hb hp ph' _ _ p3, hadm⟩
    · obtain ⟨r, rfl⟩ := isDone_of_prog_done (by simpa using hnd)
      cases rest with
      | nil => simp [Ph.prog, Cfg.silent] at h
      | cons op rest' =>
        simp [Ph.prog, Cfg.silent] at h
        subst h
        exact ⟨enter_op hG hi hb hp op (hadm op (by simp)), fun o ho => hadm o (by simp [ho])⟩
  | some k =>
    have hp : p = k.prog phs := hcur
    subst hp
    obtain ⟨hok, _⟩ := hG.ok i k hb
    cases hs : k.slot with
    | some u =>
      obtain ⟨ph, hu, hnd⟩ : ∃ ph, phs[u]? = some ph ∧ ph.prog.isDone = false := by
        cases k <;> simp [BK.slot] at hs <;> subst hs <;> exact hok.2.1
      have hpk : k.prog phs = ph.prog.bind k.kont := by rw [BK.prog_slot hs, slotProg, hu]
      rw [hpk] at h
      obtain ⟨ph', h1, h2, h3⟩ := drive_silent hG.j hu k.kont hnd rest take rs c' h
      rw [h1, h2]
      exact ⟨advance hG hi hb hs hu ph' _ _ h3, hadm⟩
    | none =>
      cases k with
      | ceV base items j sec =>
        cases sec with
        | true =>
          have hj := hok.2.1 rfl
          simp [BK.prog, List.getElem?_eq_getElem hj, Cfg.silent] at h
        | false =>
          rcases Nat.lt_or_ge j items.length with hj | hj
          · have he : items[j]? = some items[j] := List.getElem?_eq_getElem hj
            simp [BK.prog, bceValidate_drop items j _ _ he, Cfg.silent] at h
          · have : items.drop j = [] := List.drop_eq_nil_of_le hj
            simp [BK.prog, this, bceValidate, bceC, Cfg.silent] at h
            subst h
            exact ⟨ceV_alloc hG hi hb hj, hadm⟩
      | cnA base items =>
        simp [BK.prog, bcnC, Cfg.silent] at h
        subst h
        exact ⟨cnA_alloc hG hi hb, hadm⟩
      | ceL base items start j => simp [BK.slot] at hs
      | cnL base items start j => simp [BK.slot] at hs
      | deL base ids j del fl => simp [BK.slot] at hs
      | unV base us j =>
        have hj := hok.1
        have he : us[j]? = some us[j] := List.getElem?_eq_getElem hj
        simp only [BK.prog] at h
        rw [bunValidate_drop us j _ _ he] at h
        simp [Cfg.silent] at h
      | unL base us j cnt => simp [BK.slot] at hs

theorem setB_self {bs : List (Option BK)} {i : Nat} {b : Option BK} (hb : bs[i]? = some b) : bs.set i b = bs := by
  apply List.ext_getElem?
  intro j
  rw [getB_set (lt_of_getElem? hb)]
  split
  · rename_i h; subst h; exact hb.symm
  · rfl

theorem StepOK.refl (hG : G ne0 D bs phs s held) {b : Option BK} (hb : bs[i]? = some b) {p : Prog} (hcur : CurOK phs i b p) :
    StepOK ne0 D bs phs i b p s held :=
  ⟨b, phs, hcur, by rw [setB_self hb]; exact hG, Nat.le_refl _, fun _ _ _ _ => rfl, fun _ _ h => h⟩

/-- two moves of thread `i` one after the other -/
theorem StepOK.trans {b : Option BK} {p1 : Prog} {s1 : St} {held1 : List Key}
    (h1 : StepOK ne0 D bs phs i b p1 s1 held1) {p2 : Prog} {s2 : St} {held2 : List Key}
    (h2 : ∀ b1 phs1, CurOK phs1 i b1 p1 → G ne0 D (bs.set i b1) phs1 s1 held1 →
      StepOK ne0 D (bs.set i b1) phs1 i b1 p2 s2 held2) :
    StepOK ne0 D bs phs i b p2 s2 held2 := by
  obtain ⟨b1, phs1, c1, g1, l1, st1, bl1⟩ := h1
  obtain ⟨b2, phs2, c2, g2, l2, st2, bl2⟩ := h2 b1 phs1 c1 g1
  refine ⟨b2, phs2, c2, by rw [List.set_set] at g2; exact g2, Nat.le_trans l1 l2, ?_, ?_⟩
  · intro x hx hxi hnb
    rw [st2 x (by omega) hxi (fun h => hnb (bl1 x hx h)), st1 x hx hxi hnb]
  · intro x hx h
    exact bl1 x hx (bl2 x (by omega) h)

theorem settle_presB (take : Bool) (fuel : Nat) :
    ∀ (bs : List (Option BK)) (phs : List Ph) (b : Option BK) (p : Prog) (rest : List Op) (rs : List Res)
      (s : St) (held : List Key),
      G ne0 D bs phs s held → i < bs.length → bs[i]? = some b → CurOK phs i b p → (∀ op ∈ rest, op.admB ne0 D) →
      StepOK ne0 D bs phs i b (settle Op.prog take fuel ⟨p, rest, rs, s, held⟩).p
        (settle Op.prog take fuel ⟨p, rest, rs, s, held⟩).s (settle Op.prog take fuel ⟨p, rest, rs, s, held⟩).held ∧
      ∀ op ∈ (settle Op.prog take fuel ⟨p, rest, rs, s, held⟩).rest, op.admB ne0 D := by
  induction fuel with
  | zero =>
    intro bs phs b p rest rs s held hG hi hb hcur hadm
    exact ⟨StepOK.refl hG hb hcur, hadm⟩
  | succ fuel ih =>
    intro bs phs b p rest rs s held hG hi hb hcur hadm
    simp only [settle]
    cases h : Cfg.silent Op.prog take ⟨p, rest, rs, s, held⟩ with
    | none => exact ⟨StepOK.refl hG hb hcur, hadm⟩
    | some c' =>
      obtain ⟨q1, q2⟩ := silent_presB hG hi hb hcur rest hadm take rs c' h
      simp only
      have hc : c' = ⟨c'.p, c'.rest, c'.rs, c'.s, c'.held⟩ := rfl
      rw [hc]
      obtain ⟨b1, phs1, c1, g1, l1, st1, bl1⟩ := q1
      have hi1 : i < (bs.set i b1).length := by simpa using hi
      have hb1 : (bs.set i b1)[i]? = some b1 := by rw [getB_set hi]; simp
      obtain ⟨r1, r2⟩ := ih (bs.set i b1) phs1 b1 c'.p c'.rest c'.rs c'.s c'.held g1 hi1 hb1 c1 q2
      exact ⟨StepOK.trans ⟨b1, phs1, c1, g1, l1, st1, bl1⟩ (fun b1' phs1' c1' g1' => by
        have hi1' : i < (bs.set i b1').length := by simpa using hi
        have hb1' : (bs.set i b1')[i]? = some b1' := by rw [getB_set hi]; simp
        exact (ih (bs.set i b1') phs1' b1' c'.p c'.rest c'.rs c'.s c'.held g1' hi1' hb1' c1' q2).1), r2⟩

/-- thread `t` is where `b` and `phs` say and has only admissible operations left -/
def TMatchB (ne0 : Nat) (D : Nat → Prop) (phs : List Ph) (i : Nat) (b : Option BK) (t : Thread) : Prop :=
  ((∃ p, t.cur = some p ∧ CurOK phs i b p) ∨ (t.cur = none ∧ b = none ∧ ∃ r, phs[i]? = some (.fin r))) ∧
  ∀ op ∈ t.rest, op.admB ne0 D

/-- one scheduler grant to thread `i` -/
theorem turn_presB (hG : G ne0 D bs phs s held) (hi : i < bs.length) {b : Option BK} (hb : bs[i]? = some b)
    (t : Thread) (hm : TMatchB ne0 D phs i b t) :
    ∃ (b' : Option BK) (phs' : List Ph), TMatchB ne0 D phs' i b' (t.turn Op.prog s held).1 ∧
      G ne0 D (bs.set i b') phs' (t.turn Op.prog s held).2.1 (t.turn Op.prog s held).2.2 ∧
      phs.length ≤ phs'.length ∧ (∀ x, x < phs.length → x ≠ i → ¬ inBlk b x → phs'[x]? = phs[x]?) := by
  obtain ⟨hcur, hadm⟩ := hm
  rcases hcur with ⟨p, hc, hcur⟩ | ⟨hc, rfl, r, hr⟩
  · simp only [Thread.turn, hc]
    obtain ⟨q0, a0⟩ := settle_presB (i := i) true SETTLE_FUEL bs phs b p t.rest t.results s held hG hi hb hcur hadm
    generalize settle Op.prog true SETTLE_FUEL ⟨p, t.rest, t.results, s, held⟩ = c0 at q0 a0
    cases hl : c0.p.label with
    | none =>
      obtain ⟨b0, phs0, c0', g0, l0, st0, _⟩ := q0
      exact ⟨b0, phs0, ⟨Or.inl ⟨c0.p, rfl, c0'⟩, a0⟩, g0, l0, st0⟩
    | some lab =>
      simp only
      have q2 : StepOK ne0 D bs phs i b
          (settle Op.prog false SETTLE_FUEL ⟨(c0.p.step c0.s).1, c0.rest, c0.rs, (c0.p.step c0.s).2, c0.held⟩).p
          (settle Op.prog false SETTLE_FUEL ⟨(c0.p.step c0.s).1, c0.rest, c0.rs, (c0.p.step c0.s).2, c0.held⟩).s
          (settle Op.prog false SETTLE_FUEL ⟨(c0.p.step c0.s).1, c0.rest, c0.rs, (c0.p.step c0.s).2, c0.held⟩).held := by
        refine StepOK.trans q0 (fun b0 phs0 c0' g0 => ?_)
        have hi0 : i < (bs.set i b0).length := by simpa using hi
        have hb0 : (bs.set i b0)[i]? = some b0 := by rw [getB_set hi]; simp
        have q1 := store_presB g0 hi0 hb0 c0' (by simp [hl])
        refine StepOK.trans q1 (fun b1 phs1 c1' g1 => ?_)
        rw [List.set_set] at g1 ⊢
        have hi1 : i < (bs.set i b1).length := by simpa using hi
        have hb1 : (bs.set i b1)[i]? = some b1 := by rw [getB_set hi]; simp
        exact (settle_presB (i := i) false SETTLE_FUEL (bs.set i b1) phs1 b1 _ c0.rest c0.rs _ c0.held g1 hi1 hb1 c1' a0).1
      have a2 : ∀ op ∈ (settle Op.prog false SETTLE_FUEL ⟨(c0.p.step c0.s).1, c0.rest, c0.rs, (c0.p.step c0.s).2, c0.held⟩).rest,
          op.admB ne0 D := by
        obtain ⟨b0, phs0, c0', g0, _⟩ := q0
        have hi0 : i < (bs.set i b0).length := by simpa using hi
        have hb0 : (bs.set i b0)[i]? = some b0 := by rw [getB_set hi]; simp
        obtain ⟨b1, phs1, c1', g1, _⟩ := store_presB g0 hi0 hb0 c0' (by simp [hl])
        rw [List.set_set] at g1
        have hi1 : i < (bs.set i b1).length := by simpa using hi
        have hb1 : (bs.set i b1)[i]? = some b1 := by rw [getB_set hi]; simp
        exact (settle_presB (i := i) false SETTLE_FUEL (bs.set i b1) phs1 b1 _ c0.rest c0.rs _ c0.held g1 hi1 hb1 c1' a0).2
      obtain ⟨b2, phs2, c2', g2, l2, st2, _⟩ := q2
      exact ⟨b2, phs2, ⟨Or.inl ⟨_, rfl, c2'⟩, a2⟩, g2, l2, st2⟩
  · simp only [Thread.turn, hc]
    cases hrest : t.rest with
    | nil =>
      have hJ2 := hG.j.step_same hr (.fin .ok) s.ne held (Nat.le_refl _) (fun x K h => by simp [Exc] at h) trivial
        (fun _ _ _ _ _ _ h => h) (fun k hk => by simp [Ph.holds] at hk) (fun x hx => by simp [Ph.creates] at hx)
      obtain ⟨b1, phs1, c1, g1, l1, st1, _⟩ := plain_ok hG hi hb hr (.fin .ok) s held (by simpa using hJ2)
      exact ⟨b1, phs1, ⟨Or.inl ⟨_, rfl, c1⟩, by simp [hrest]⟩, g1, l1, st1⟩
    | cons op rest =>
      simp only
      have hadm' : ∀ o ∈ rest, o.admB ne0 D := fun o ho => hadm o (by simp [hrest, ho])
      have q1 := enter_op hG hi hb hr op (hadm op (by simp [hrest]))
      have q2 : StepOK ne0 D bs phs i none
          (settle Op.prog false SETTLE_FUEL ⟨op.prog, rest, t.results, s, held⟩).p
          (settle Op.prog false SETTLE_FUEL ⟨op.prog, rest, t.results, s, held⟩).s
          (settle Op.prog false SETTLE_FUEL ⟨op.prog, rest, t.results, s, held⟩).held := by
        refine StepOK.trans q1 (fun b1 phs1 c1' g1 => ?_)
        have hi1 : i < (bs.set i b1).length := by simpa using hi
        have hb1 : (bs.set i b1)[i]? = some b1 := by rw [getB_set hi]; simp
        exact (settle_presB (i := i) false SETTLE_FUEL (bs.set i b1) phs1 b1 _ rest t.results _ held g1 hi1 hb1 c1' hadm').1
      have a2 : ∀ o ∈ (settle Op.prog false SETTLE_FUEL ⟨op.prog, rest, t.results, s, held⟩).rest, o.admB ne0 D := by
        obtain ⟨b1, phs1, c1', g1, _⟩ := q1
        have hi1 : i < (bs.set i b1).length := by simpa using hi
        have hb1 : (bs.set i b1)[i]? = some b1 := by rw [getB_set hi]; simp
        exact (settle_presB (i := i) false SETTLE_FUEL (bs.set i b1) phs1 b1 _ rest t.results _ held g1 hi1 hb1 c1' hadm').2
      obtain ⟨b2, phs2, c2', g2, l2, st2, _⟩ := q2
      exact ⟨b2, phs2, ⟨Or.inl ⟨_, rfl, c2'⟩, a2⟩, g2, l2, st2⟩

/-- the other threads are where they were -/
theorem TMatchB.stable (hG : G ne0 D bs phs s held) (hi : i < bs.length) {b : Option BK} (hb : bs[i]? = some b)
    {j : Nat} (hji : j ≠ i) {bj : Option BK} (hbj : bs[j]? = some bj) {t : Thread} (hm : TMatchB ne0 D phs j bj t)
    (phs' : List Ph) (hst : ∀ x, x < phs.length → x ≠ i → ¬ inBlk b x → phs'[x]? = phs[x]?) :
    TMatchB ne0 D phs' j bj t := by
  have hjl : j < bs.length := lt_of_getElem? hbj
  have hnb : ∀ x, x < bs.length → ¬ inBlk b x := by
    rintro x hx ⟨k, hk, h1, h2⟩
    have := (hG.ok i k (by rw [hb, hk])).2.2.1
    omega
  have hj' : phs'[j]? = phs[j]? := hst j (by have := hG.le; omega) hji (hnb j hjl)
  obtain ⟨hcur, hadm⟩ := hm
  refine ⟨?_, hadm⟩
  rcases hcur with ⟨p, hc, hcur⟩ | ⟨hc, rfl, r, hr⟩
  · left
    refine ⟨p, hc, ?_⟩
    cases bj with
    | none =>
      obtain ⟨ph, h1, h2⟩ := hcur
      exact ⟨ph, by rw [hj']; exact h1, h2⟩
    | some kj =>
      have hp : p = kj.prog phs := hcur
      obtain ⟨hokj, _, hTj, hEj⟩ := hG.ok j kj hbj
      show p = kj.prog phs'
      rw [hp]
      symm
      apply BK.prog_congr kj _ ⟨ne0, D, hokj⟩
      intro x hx1 hx2
      refine hst x (by omega) (by omega) ?_
      rintro ⟨k, hk, h1, h2⟩
      rcases hG.disj i j k kj (fun h => hji h.symm) (by rw [hb, hk]) hbj with h | h <;> omega
  · right
    exact ⟨hc, rfl, r, by rw [hj']; exact hr⟩

end steps

def MatchesB (ne0 : Nat) (D : Nat → Prop) (ts : List Thread) (bs : List (Option BK)) (phs : List Ph) : Prop :=
  ts.length = bs.length ∧
  ∀ (i : Nat) (t : Thread) (b : Option BK), ts[i]? = some t → bs[i]? = some b → TMatchB ne0 D phs i b t

theorem runThreads_presB {ne0 : Nat} {D : Nat → Prop} (sched : List Nat) :
    ∀ (ts : List Thread) (bs : List (Option BK)) (phs : List Ph) (s : St) (held : List Key),
      MatchesB ne0 D ts bs phs → G ne0 D bs phs s held →
      ∃ bs' phs', MatchesB ne0 D (runThreads Op.prog ts sched s held).1 bs' phs' ∧
        G ne0 D bs' phs' (runThreads Op.prog ts sched s held).2.1 (runThreads Op.prog ts sched s held).2.2 := by
  induction sched with
  | nil => intro ts bs phs s held hm hG; exact ⟨bs, phs, hm, hG⟩
  | cons i sched ih =>
    intro ts bs phs s held hm hG
    simp only [runThreads]
    cases hti : ts[i]? with
    | none => exact ih ts bs phs s held hm hG
    | some t =>
      simp only
      have hlt : i < ts.length := lt_of_getElem? hti
      have hlt' : i < bs.length := hm.1 ▸ hlt
      have hbi : bs[i]? = some bs[i] := List.getElem?_eq_getElem hlt'
      obtain ⟨b', phs', hm', hG', hl', hst'⟩ := turn_presB hG hlt' hbi t (hm.2 i t _ hti hbi)
      apply ih _ (bs.set i b') phs' _ _ ?_ hG'
      rw [setAt_eq_set]
      refine ⟨by simp [hm.1], ?_⟩
      intro j u bj hu hbj
      rw [getB_set hlt'] at hbj
      rw [List.getElem?_set] at hu
      by_cases hji : j = i
      · subst hji; simp [hlt] at hu hbj; subst hu; subst hbj; exact hm'
      · have : ¬ i = j := fun h => hji h.symm
        simp [hji, this] at hu hbj
        exact TMatchB.stable hG hlt' hbi hji hbj (hm.2 j u bj hu hbj) phs' hst'

theorem BK.prog_not_done {ne0 : Nat} {D : Nat → Prop} {phs : List Ph} {k : BK} (hok : k.ok ne0 D phs) :
    (k.prog phs).isDone = false := by
  cases k with
  | ceV base items j sec =>
    obtain ⟨o1, o2, o3, o4, o5, o6⟩ := hok
    cases sec with
    | true =>
      have hj := o2 rfl
      simp [BK.prog, List.getElem?_eq_getElem hj, Prog.isDone]
    | false =>
      rcases Nat.lt_or_ge j items.length with hj | hj
      · have he : items[j]? = some items[j] := List.getElem?_eq_getElem hj
        simp [BK.prog, bceValidate_drop items j _ _ he, Prog.isDone]
      · have : items.drop j = [] := List.drop_eq_nil_of_le hj
        simp [BK.prog, this, bceValidate, bceC, Prog.isDone]
  | cnA base items => simp [BK.prog, bcnC, Prog.isDone]
  | ceL base items start j =>
    obtain ⟨_, ⟨ph, h2, h3⟩, _⟩ := hok
    simp only [BK.prog, slotProg, h2]; exact bind_isDone _ _ h3
  | cnL base items start j =>
    obtain ⟨_, ⟨ph, h2, h3⟩, _⟩ := hok
    simp only [BK.prog, slotProg, h2]; exact bind_isDone _ _ h3
  | deL base ids j del fl =>
    obtain ⟨_, ⟨ph, h2, h3⟩, _⟩ := hok
    simp only [BK.prog, slotProg, h2]; exact bind_isDone _ _ h3
  | unV base us j =>
    have hj := hok.1
    have he : us[j]? = some us[j] := List.getElem?_eq_getElem hj
    simp only [BK.prog]
    rw [bunValidate_drop us j _ _ he]
    rfl
  | unL base us j cnt =>
    obtain ⟨_, ⟨ph, h2, h3⟩, _⟩ := hok
    simp only [BK.prog, slotProg, h2]; exact bind_isDone _ _ h3

/-- every interleaving of admissible operations, batch calls included, ends in a well-formed store
    once all threads have finished -/
theorem quiescentWF_of_admB (s0 : St) (h : Inv s0) (D : Nat → Prop) (programs : List (List Op))
    (hadm : ∀ ops ∈ programs, ∀ op ∈ ops, op.admB s0.ne D) : QuiescentWF s0 programs := by
  intro sched hfin
  have hrep : ∀ (j : Nat) (ph : Ph), (List.replicate programs.length (Ph.fin .ok))[j]? = some ph → ph = .fin .ok := by
    intro j ph hj
    rw [List.getElem?_replicate] at hj
    split at hj
    · cases hj; rfl
    · cases hj
  have hrepB : ∀ (j : Nat) (b : Option BK), (List.replicate programs.length (none : Option BK))[j]? = some b → b = none := by
    intro j b hj
    rw [List.getElem?_replicate] at hj
    split at hj
    · cases hj; rfl
    · cases hj
  have hG0 : G s0.ne D (List.replicate programs.length none) (List.replicate programs.length (.fin .ok)) s0 [] := by
    refine ⟨J_init h D programs.length, by simp, ?_, ?_, ?_⟩
    · intro i k hb; cases hrepB i _ hb
    · intro i i' k k' _ hb; cases hrepB i _ hb
    · intro x ph hx hp
      rw [List.getElem?_eq_none (by simpa using hx)] at hp; cases hp
  have hm : MatchesB s0.ne D (programs.map Thread.ofOps) (List.replicate programs.length none)
      (List.replicate programs.length (.fin .ok)) := by
    refine ⟨by simp, ?_⟩
    intro i t b ht hb
    cases hrepB i _ hb
    have hil : i < programs.length := by simpa using lt_of_getElem? hb
    rw [List.getElem?_map] at ht
    cases hpi : programs[i]? with
    | none => simp [hpi] at ht
    | some ops =>
      simp [hpi] at ht; subst ht
      refine ⟨Or.inr ⟨rfl, rfl, .ok, ?_⟩, hadm ops (List.mem_of_getElem? hpi)⟩
      rw [List.getElem?_replicate]; simp [hil]
  obtain ⟨bs', phs', hm', hG'⟩ := runThreads_presB sched _ _ _ s0 [] hm hG0
  -- at quiescence no thread is inside a batch call and every phase is quiet
  have hnone : ∀ (i : Nat) (b : Option BK), bs'[i]? = some b → b = none ∧ ∃ r, phs'[i]? = some (.fin r) := by
    intro i b hb
    have hlt : i < (runThreads Op.prog (programs.map Thread.ofOps) sched s0 []).1.length := by
      rw [hm'.1]; exact lt_of_getElem? hb
    have ht := List.getElem?_eq_getElem hlt
    obtain ⟨hcur, _⟩ := hm'.2 i _ b ht hb
    have hf : ((runThreads Op.prog (programs.map Thread.ofOps) sched s0 []).1[i]).finished = true :=
      List.all_eq_true.mp hfin _ (List.getElem_mem hlt)
    rcases hcur with ⟨p, hc, hcur⟩ | ⟨_, rfl, r, hr⟩
    · unfold Thread.finished at hf
      rw [hc] at hf
      have hpd : p.isDone = true := by cases p <;> simp [Prog.isDone] at hf ⊢
      cases b with
      | none =>
        obtain ⟨ph, h1, h2⟩ := hcur
        obtain ⟨r, rfl⟩ := isDone_of_prog_done (h2 ▸ hpd)
        exact ⟨rfl, r, h1⟩
      | some k =>
        have hp : p = k.prog phs' := hcur
        have := BK.prog_not_done (hG'.ok i k hb).1
        rw [← hp, hpd] at this; cases this
    · exact ⟨rfl, r, hr⟩
  apply WF_of_J_quiet hG'.j
  intro x ph hp
  by_cases hx : x < bs'.length
  · obtain ⟨_, r, hr⟩ := hnone x _ (List.getElem?_eq_getElem hx)
    rw [hr] at hp; cases hp; exact quiet_fin _
  · rcases hG'.quiet x ph (by omega) hp with hq | ⟨i, k, hb, _⟩
    · exact hq
    · cases (hnone i _ hb).1

/-- edge ids that some thread deletes, by `delete_edge` or as an item of `batch_delete_edges` -/
def DelSet (programs : List (List Op)) (e : Nat) : Prop :=
  (∃ ops ∈ programs, Op.deleteEdge e ∈ ops) ∨
  (∃ ops ∈ programs, ∃ ids, Op.batchDeleteEdges ids ∈ ops ∧ e ∈ ids)

/-- the operations `quiescent_wf_with_batch_calls_partial` admits, as a condition on the programs:
    what `Admissible` admits, `batch_create_nodes`, `batch_create_edges` and `batch_update_nodes` with ANY items,
    `batch_delete_edges` of ids handed out before the phase; no edge both updated and deleted (by
    `delete_edge` or by a `batch_delete_edges`) -/
def AdmissibleB (s0 : St) (programs : List (List Op)) : Op → Prop
  | .createEdge .. => True
  | .createNode .. => True
  | .updateNode .. => True
  | .addLabel .. => True
  | .removeLabel .. => True
  | .batchCreateEdges _ => True
  | .batchCreateNodes _ => True
  | .batchUpdateNodes _ => True
  | .deleteEdge e => e ≤ s0.ne
  | .batchDeleteEdges ids => ∀ e ∈ ids, e ≤ s0.ne
  | .updateEdge e _ => e ≤ s0.ne ∧ ¬ DelSet programs e
  | _ => False

theorem quiescentWF_of_admissibleB (s0 : St) (h : Inv s0) (programs : List (List Op))
    (hadm : ∀ ops ∈ programs, ∀ op ∈ ops, AdmissibleB s0 programs op) : QuiescentWF s0 programs := by
  apply quiescentWF_of_admB s0 h (DelSet programs) programs
  intro ops ho op hop
  have ha := hadm ops ho op hop
  cases op with
  | createEdge a b d ty v => trivial
  | createNode l v => trivial
  | updateNode n lab v => trivial
  | addLabel n l => trivial
  | removeLabel n l => trivial
  | batchCreateEdges items => trivial
  | batchCreateNodes items => trivial
  | deleteEdge e => exact ⟨ha, Or.inl ⟨ops, ho, hop⟩⟩
  | batchDeleteEdges ids => exact fun e he => ⟨ha e he, Or.inr ⟨ops, ho, ids, hop, he⟩⟩
  | updateEdge e v => exact ⟨ha.1, ha.2⟩
  | deleteNode n hint => exact ha.elim
  | batchDeleteNodes ids => exact ha.elim
  | batchUpdateNodes us => trivial

end Neumann.Graph
