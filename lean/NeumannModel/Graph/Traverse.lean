import NeumannModel.Graph.Query
/-
  C05 — `traverse` against the edge set: the breadth-first levels return exactly the nodes within
  the hop bound.  Helper lemmas.
-/
set_option linter.unusedSimpArgs false
set_option linter.unusedVariables false
namespace Neumann.Graph

/-- reachable from `a` in at most `k` hops of `get_neighbor_ids_filtered` -/
inductive RIn (m : KV) (dir : Dir) (ty : Option Nat) (a : Nat) : Nat → Nat → Prop
  | refl (k : Nat) : RIn m dir ty a k a
  | step {k b c : Nat} : RIn m dir ty a k b → c ∈ travNbr m b dir ty → RIn m dir ty a (k + 1) c

theorem RIn.mono {m : KV} {dir : Dir} {ty : Option Nat} {a k x : Nat} (h : RIn m dir ty a k x) :
    ∀ k', k ≤ k' → RIn m dir ty a k' x := by
  induction h with
  | refl k => intro k' _; exact .refl k'
  | step hb hc ih =>
    intro k' hk
    cases k' with
    | zero => omega
    | succ k'' => exact .step (ih k'' (by omega)) hc

theorem RIn.cons {m : KV} {dir : Dir} {ty : Option Nat} {f c k x : Nat} (hc : c ∈ travNbr m f dir ty)
    (h : RIn m dir ty c k x) : RIn m dir ty f (k + 1) x := by
  induction h with
  | refl k => exact .step (.refl k) hc
  | step hb hx ih => exact .step ih hx

theorem RIn.head {m : KV} {dir : Dir} {ty : Option Nat} {f k x : Nat} (h : RIn m dir ty f k x) :
    x = f ∨ ∃ c, c ∈ travNbr m f dir ty ∧ ∃ k', k = k' + 1 ∧ RIn m dir ty c k' x := by
  induction h with
  | refl k => exact Or.inl rfl
  | step hb hx ih =>
    rename_i k b c
    rcases ih with rfl | ⟨c', hc', k', hk, hr⟩
    · exact Or.inr ⟨c, hx, k, rfl, .refl k⟩
    · exact Or.inr ⟨c', hc', k' + 1, by omega, .step hr hx⟩

/-- the frontier is part of the visited set, and every node visited earlier has all its neighbours
    visited -/
structure BInv (m : KV) (dir : Dir) (ty : Option Nat) (frontier visited : List Nat) : Prop where
  sub : ∀ f ∈ frontier, f ∈ visited
  closed : ∀ b ∈ visited, b ∉ frontier → ∀ c ∈ travNbr m b dir ty, c ∈ visited

def nextOf (m : KV) (dir : Dir) (ty : Option Nat) (frontier visited : List Nat) : List Nat :=
  sortDedup ((frontier.flatMap fun n => travNbr m n dir ty).filter (fun x => !visited.contains x))

theorem mem_nextOf {m : KV} {dir : Dir} {ty : Option Nat} {frontier visited : List Nat} {x : Nat} :
    x ∈ nextOf m dir ty frontier visited ↔ (∃ f ∈ frontier, x ∈ travNbr m f dir ty) ∧ x ∉ visited := by
  simp [nextOf, mem_sortDedup, List.mem_filter, List.mem_flatMap]

theorem travLevels_succ (m : KV) (dir : Dir) (ty : Option Nat) (d : Nat) (frontier visited : List Nat) :
    travLevels m dir ty (d + 1) frontier visited =
      if (nextOf m dir ty frontier visited).isEmpty then visited
      else travLevels m dir ty d (nextOf m dir ty frontier visited) (visited ++ nextOf m dir ty frontier visited) := rfl

theorem RIn.escape {m : KV} {dir : Dir} {ty : Option Nat} {frontier visited : List Nat}
    (hI : BInv m dir ty frontier visited) {c k x : Nat} (h : RIn m dir ty c k x) (hc : c ∈ visited) :
    x ∈ visited ∨ ∃ g ∈ nextOf m dir ty frontier visited, RIn m dir ty g k x := by
  induction h with
  | refl k => exact Or.inl hc
  | step hb hx ih =>
    rename_i k b x'
    rcases ih with hbv | ⟨g, hg, hr⟩
    · by_cases hxv : x' ∈ visited
      · exact Or.inl hxv
      · by_cases hbf : b ∈ frontier
        · exact Or.inr ⟨x', mem_nextOf.mpr ⟨⟨b, hbf, hx⟩, hxv⟩, .refl _⟩
        · exact absurd (hI.closed b hbv hbf x' hx) hxv
    · exact Or.inr ⟨g, hg, .step hr hx⟩

theorem mem_travLevels {m : KV} {dir : Dir} {ty : Option Nat} : ∀ (d : Nat) (frontier visited : List Nat),
    BInv m dir ty frontier visited →
    ∀ x, x ∈ travLevels m dir ty d frontier visited ↔ x ∈ visited ∨ ∃ f ∈ frontier, RIn m dir ty f d x := by
  intro d
  induction d with
  | zero =>
    intro frontier visited hI x
    simp only [travLevels]
    constructor
    · exact Or.inl
    · rintro (h | ⟨f, hf, hr⟩)
      · exact h
      · cases hr; exact hI.sub _ hf
  | succ d ih =>
    intro frontier visited hI x
    rw [travLevels_succ]
    by_cases hne : (nextOf m dir ty frontier visited).isEmpty = true
    · rw [if_pos hne]
      have hnil : nextOf m dir ty frontier visited = [] := List.isEmpty_iff.mp hne
      constructor
      · exact Or.inl
      · rintro (h | ⟨f, hf, hr⟩)
        · exact h
        · rcases hr.escape hI (hI.sub f hf) with h | ⟨g, hg, _⟩
          · exact h
          · rw [hnil] at hg; cases hg
    · rw [if_neg hne]
      have hI' : BInv m dir ty (nextOf m dir ty frontier visited) (visited ++ nextOf m dir ty frontier visited) := by
        refine ⟨fun g hg => List.mem_append_right _ hg, ?_⟩
        intro b hb hbn c hc
        have hbv : b ∈ visited := by
          rcases List.mem_append.mp hb with h | h
          · exact h
          · exact absurd h hbn
        by_cases hcv : c ∈ visited
        · exact List.mem_append_left _ hcv
        · by_cases hbf : b ∈ frontier
          · exact List.mem_append_right _ (mem_nextOf.mpr ⟨⟨b, hbf, hc⟩, hcv⟩)
          · exact absurd (hI.closed b hbv hbf c hc) hcv
      rw [ih _ _ hI' x]
      constructor
      · rintro (h | ⟨g, hg, hr⟩)
        · rcases List.mem_append.mp h with h | h
          · exact Or.inl h
          · obtain ⟨⟨f, hf, hx⟩, _⟩ := mem_nextOf.mp h
            exact Or.inr ⟨f, hf, (RIn.step (.refl 0) hx).mono _ (by omega)⟩
        · obtain ⟨⟨f, hf, hgf⟩, _⟩ := mem_nextOf.mp hg
          exact Or.inr ⟨f, hf, hr.cons hgf⟩
      · rintro (h | ⟨f, hf, hr⟩)
        · exact Or.inl (List.mem_append_left _ h)
        · rcases hr.head with rfl | ⟨c, hc, k', hk, hr'⟩
          · exact Or.inl (List.mem_append_left _ (hI.sub _ hf))
          · have hk' : k' = d := by omega
            subst hk'
            by_cases hcv : c ∈ visited
            · rcases hr'.escape hI hcv with h | ⟨g, hg, hr''⟩
              · exact Or.inl (List.mem_append_left _ h)
              · exact Or.inr ⟨g, hg, hr''⟩
            · exact Or.inr ⟨c, mem_nextOf.mpr ⟨⟨f, hf, hc⟩, hcv⟩, hr'⟩

theorem mem_travLevels_start {m : KV} {dir : Dir} {ty : Option Nat} (d start x : Nat) :
    x ∈ travLevels m dir ty d [start] [start] ↔ RIn m dir ty start d x := by
  have hI : BInv m dir ty [start] [start] := ⟨fun f hf => hf, fun b hb hbn => absurd hb hbn⟩
  rw [mem_travLevels d _ _ hI]
  constructor
  · rintro (h | ⟨f, hf, hr⟩)
    · simp at h; subst h; exact .refl d
    · simp at hf; subst hf; exact hr
  · intro h; exact Or.inr ⟨start, by simp, h⟩

/-! ### the neighbour step in terms of the edge set -/

theorem mem_travNbr {m : KV} (h : WF m) {n c : Nat} {dir : Dir} {ty : Option Nat} :
    c ∈ travNbr m n dir ty ↔ c ≠ n ∧ Adjacent m n dir ty c := by
  have hout : c ∈ ((outL m n).flatMap fun e =>
      match edgeAt m e with
      | none => []
      | some r => if tyOk ty r then
          (if r.src = n then [r.dst] else []) ++ (if (!r.directed) && r.dst = n then [r.src] else [])
        else []) ↔
      ∃ e r, edgeAt m e = some r ∧ tyOk ty r = true ∧
        ((r.src = n ∧ r.dst = c) ∨ (r.directed = false ∧ r.dst = n ∧ r.src = c)) := by
    rw [List.mem_flatMap]
    constructor
    · rintro ⟨e, he, hc⟩
      cases hr : edgeAt m e with
      | none => simp [hr] at hc
      | some r =>
        simp only [hr] at hc
        by_cases hty : tyOk ty r = true
        · simp only [hty, if_true, List.mem_append] at hc
          refine ⟨e, r, hr, hty, ?_⟩
          rcases hc with hc | hc
          · split at hc
            · simp at hc; rename_i h1; exact Or.inl ⟨h1, hc.symm⟩
            · cases hc
          · split at hc
            · simp at hc; rename_i h1; simp at h1; exact Or.inr ⟨h1.1, h1.2, hc.symm⟩
            · cases hc
        · simp [hty] at hc
    · rintro ⟨e, r, hr, hty, hc⟩
      obtain ⟨_, _, h3, _, h5⟩ := h.edge_listed e r hr
      refine ⟨e, ?_, ?_⟩
      · rcases hc with ⟨h1, _⟩ | ⟨hd, h1, _⟩
        · rw [← h1]; exact h3
        · rw [← h1]; exact (h5 hd).1
      · simp only [hr, hty, if_true, List.mem_append]
        rcases hc with ⟨h1, h2⟩ | ⟨hd, h1, h2⟩
        · left; simp [h1, h2]
        · right; simp [hd, h1, h2]
  have hin : c ∈ ((inL m n).flatMap fun e =>
      match edgeAt m e with
      | none => []
      | some r => if tyOk ty r then
          (if r.dst = n then [r.src] else []) ++ (if (!r.directed) && r.src = n then [r.dst] else [])
        else []) ↔
      ∃ e r, edgeAt m e = some r ∧ tyOk ty r = true ∧
        ((r.dst = n ∧ r.src = c) ∨ (r.directed = false ∧ r.src = n ∧ r.dst = c)) := by
    rw [List.mem_flatMap]
    constructor
    · rintro ⟨e, he, hc⟩
      cases hr : edgeAt m e with
      | none => simp [hr] at hc
      | some r =>
        simp only [hr] at hc
        by_cases hty : tyOk ty r = true
        · simp only [hty, if_true, List.mem_append] at hc
          refine ⟨e, r, hr, hty, ?_⟩
          rcases hc with hc | hc
          · split at hc
            · simp at hc; rename_i h1; exact Or.inl ⟨h1, hc.symm⟩
            · cases hc
          · split at hc
            · simp at hc; rename_i h1; simp at h1; exact Or.inr ⟨h1.1, h1.2, hc.symm⟩
            · cases hc
        · simp [hty] at hc
    · rintro ⟨e, r, hr, hty, hc⟩
      obtain ⟨_, _, _, h4, h5⟩ := h.edge_listed e r hr
      refine ⟨e, ?_, ?_⟩
      · rcases hc with ⟨h1, _⟩ | ⟨hd, h1, _⟩
        · rw [← h1]; exact h4
        · rw [← h1]; exact (h5 hd).2
      · simp only [hr, hty, if_true, List.mem_append]
        rcases hc with ⟨h1, h2⟩ | ⟨hd, h1, h2⟩
        · left; simp [h1, h2]
        · right; simp [hd, h1, h2]
  unfold travNbr
  simp only [List.mem_filter, List.mem_append, bne_iff_ne, ne_eq, decide_eq_true_eq]
  unfold Adjacent
  constructor
  · rintro ⟨hc, hne⟩
    refine ⟨hne, ?_⟩
    rcases hc with hc | hc
    · split at hc
      · rename_i hd
        obtain ⟨e, r, hr, hty, hcc⟩ := hout.mp hc
        exact ⟨e, r, hr, hty, Or.inl ⟨hd, hcc⟩⟩
      · cases hc
    · split at hc
      · rename_i hd
        obtain ⟨e, r, hr, hty, hcc⟩ := hin.mp hc
        exact ⟨e, r, hr, hty, Or.inr ⟨hd, hcc⟩⟩
      · cases hc
  · rintro ⟨hne, e, r, hr, hty, hc⟩
    refine ⟨?_, hne⟩
    rcases hc with ⟨hd, hcc⟩ | ⟨hd, hcc⟩
    · left; rw [if_pos hd]; exact hout.mpr ⟨e, r, hr, hty, hcc⟩
    · right; rw [if_pos hd]; exact hin.mpr ⟨e, r, hr, hty, hcc⟩

/-- reachable from `a` in at most `k` hops along existing edges of the type in the direction
    (an undirected edge can be walked both ways whatever the direction) -/
inductive Within (m : KV) (dir : Dir) (ty : Option Nat) (a : Nat) : Nat → Nat → Prop
  | refl (k : Nat) : Within m dir ty a k a
  | step {k b c : Nat} : Within m dir ty a k b → Adjacent m b dir ty c → Within m dir ty a (k + 1) c

theorem Within.mono {m : KV} {dir : Dir} {ty : Option Nat} {a k x : Nat} (h : Within m dir ty a k x) :
    ∀ k', k ≤ k' → Within m dir ty a k' x := by
  induction h with
  | refl k => intro k' _; exact .refl k'
  | step hb hc ih =>
    intro k' hk
    cases k' with
    | zero => omega
    | succ k'' => exact .step (ih k'' (by omega)) hc

theorem rin_iff_within {m : KV} (h : WF m) {dir : Dir} {ty : Option Nat} {a k x : Nat} :
    RIn m dir ty a k x ↔ Within m dir ty a k x := by
  constructor
  · intro hr
    induction hr with
    | refl k => exact .refl k
    | step hb hc ih => exact .step ih ((mem_travNbr h).mp hc).2
  · intro hw
    induction hw with
    | refl k => exact .refl k
    | step hb hc ih =>
      rename_i k b c
      by_cases hcb : c = b
      · subst hcb; exact ih.mono _ (by omega)
      · exact .step ih ((mem_travNbr h).mpr ⟨hcb, hc⟩)

theorem Within.exists {m : KV} (h : WF m) {dir : Dir} {ty : Option Nat} {a k x : Nat}
    (ha : nodeEx m a = true) (hw : Within m dir ty a k x) : nodeEx m x = true := by
  induction hw with
  | refl k => exact ha
  | step hb hc ih =>
    obtain ⟨e, r, hr, _, hcc⟩ := hc
    obtain ⟨h1, h2, _⟩ := h.edge_listed e r hr
    rcases hcc with ⟨_, ⟨_, hh⟩ | ⟨_, _, hh⟩⟩ | ⟨_, ⟨_, hh⟩ | ⟨_, _, hh⟩⟩ <;> rw [← hh] <;> assumption

theorem traverse_char {m : KV} (h : WF m) (start : Nat) (dir : Dir) (depth : Nat) (ty : Option Nat)
    (hs : nodeEx m start = true) :
    ∃ l, traverse m start dir depth ty = some l ∧ l.Pairwise (· < ·) ∧
      ∀ x, x ∈ l ↔ Within m dir ty start depth x := by
  refine ⟨sortDedup ((travLevels m dir ty depth [start] [start]).filter (nodeEx m)),
    by simp only [traverse, hs, if_true], sorted_sortDedup _, ?_⟩
  intro x
  rw [mem_sortDedup, List.mem_filter, mem_travLevels_start, rin_iff_within h]
  exact ⟨fun hh => hh.1, fun hw => ⟨hw, hw.exists h hs⟩⟩

end Neumann.Graph
