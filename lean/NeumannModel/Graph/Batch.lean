import NeumannModel.Graph.DeleteNode
/-
  C05 — label updates and batch operations: every batch call is the sequence of the single
  operations (or, when its validation phase fails, nothing at all); the sequential invariant for
  every operation; re-opening an engine over an existing store (`with_store`).
-/
set_option linter.unusedSimpArgs false
set_option linter.unusedVariables false
namespace Neumann.Graph

theorem run1_bind (p : Prog) (k : Res → Prog) :
    ∀ s, run1 (p.bind k) s = run1 (k (run1 p s).1) (run1 p s).2 := by
  induction p with
  | done r => intro s; rfl
  | get key c ih => intro s; simp only [Prog.bind, run1]; exact ih _ s
  | put key v c ih => intro s; simp only [Prog.bind, run1]; exact ih _
  | del key c ih => intro s; simp only [Prog.bind, run1]; exact ih _ _
  | ex key c ih => intro s; simp only [Prog.bind, run1]; exact ih _ s
  | allocN c ih => intro s; simp only [Prog.bind, run1]; exact ih _ _
  | allocE c ih => intro s; simp only [Prog.bind, run1]; exact ih _ _
  | allocNs cnt c ih => intro s; simp only [Prog.bind, run1]; exact ih _ _
  | allocEs cnt c ih => intro s; simp only [Prog.bind, run1]; exact ih _ _
  | acq key c ih => intro s; simp only [Prog.bind, run1]; exact ih _
  | rel key c ih => intro s; simp only [Prog.bind, run1]; exact ih _

/-! ### node-record writes: `add_label`, `remove_label` -/

theorem inv_put_node (s : St) (n : Nat) (val' : Val) (h : Inv s) (hex : nodeEx s.kv n = true) :
    Inv { s with kv := upd s.kv (.node n) (some val') } := by
  refine ⟨?_, ?_, ?_, ?_⟩
  · apply wf_same_shape h.wf
    · intro x r' hx; simp at hx; exact ⟨r', hx, rfl, rfl, rfl⟩
    · intro x r hx; exact ⟨r, by simp [hx], rfl, rfl, rfl⟩
    · intro m hm; simp; exact Or.inr hm
    · intro m; simp
    · intro m; simp
  · intro m hm; simp
    refine ⟨?_, h.freshN m hm⟩
    rintro rfl; have := h.freshN m hm; simp_all
  · intro e he; simp; exact h.freshE e he
  · intro m hm; simp at hm
    have : nodeEx s.kv m = true := by rcases hm with rfl | hm; exact hex; exact hm
    simpa [upd] using h.keys m this

theorem inv_labelPut (s : St) (n : Nat) (labs : List Nat) (h : Inv s) :
    Inv (run1 (labelPut n labs (s.kv (.node n))) s).2 := by
  unfold labelPut
  cases hv : s.kv (.node n) with
  | none => simp only [run1]; exact h
  | some val => simp only [run1]; exact inv_put_node s n _ h (by simp [nodeEx, hv])

theorem inv_addLabel (s : St) (n l : Nat) (h : Inv s) : Inv (apply s (.addLabel n l)).2 := by
  simp only [apply, Op.prog, addLabelProg, run1]
  cases hv : s.kv (.node n) with
  | none => simp only [run1]; exact h
  | some val =>
    simp only
    split
    · simp only [run1]; exact h
    · simp only [run1]; exact inv_labelPut s n _ h

theorem inv_removeLabel (s : St) (n l : Nat) (h : Inv s) : Inv (apply s (.removeLabel n l)).2 := by
  simp only [apply, Op.prog, removeLabelProg, run1]
  cases hv : s.kv (.node n) with
  | none => simp only [run1]; exact h
  | some val =>
    simp only
    split
    · simp only [run1]; exact inv_labelPut s n _ h
    · simp only [run1]; exact h

/-! ### the single operations -/

def Op.isBasic : Op → Bool
  | .batchCreateNodes _ | .batchCreateEdges _ | .batchDeleteEdges _ | .batchDeleteNodes _
  | .batchUpdateNodes _ => false
  | _ => true

theorem inv_apply_basic (s : St) (op : Op) (hb : op.isBasic = true) (h : Inv s) : Inv (apply s op).2 := by
  cases op with
  | createNode l v => exact inv_createNode s l v h
  | createEdge a b d ty v => exact inv_createEdge s a b d ty v h
  | deleteEdge e => exact inv_deleteEdge s e h
  | deleteNode n hint => exact inv_deleteNode s n hint h
  | updateNode n l v => exact inv_updateNode s n l v h
  | updateEdge e v => exact inv_updateEdge s e v h
  | addLabel n l => exact inv_addLabel s n l h
  | removeLabel n l => exact inv_removeLabel s n l h
  | _ => simp [Op.isBasic] at hb

theorem inv_applyAll_basic (ops : List Op) (hb : ∀ op ∈ ops, op.isBasic = true) :
    ∀ s, Inv s → Inv (applyAll s ops) := by
  induction ops with
  | nil => intro s h; exact h
  | cons op ops ih =>
    intro s h
    exact ih (fun o ho => hb o (List.mem_cons_of_mem _ ho)) _ (inv_apply_basic s op (hb op (List.mem_cons_self ..)) h)

/-! ### batch = sequence -/

/-- the single operations a batch call stands for -/
def Op.expand : Op → List Op
  | .batchCreateNodes items => items.map fun x => .createNode x.1 x.2
  | .batchCreateEdges items => items.map fun e => .createEdge e.a e.b e.d e.ty e.v
  | .batchDeleteEdges ids => ids.map .deleteEdge
  | .batchDeleteNodes ids => ids.map fun x => .deleteNode x.1 x.2
  | .batchUpdateNodes us => us.map fun x => .updateNode x.1 x.2.1 x.2.2
  | op => [op]

/-- the validation phase of a batch call (`batch_create_edges`: every endpoint exists;
    `batch_update_nodes`: every node exists), evaluated on the store before the call -/
def Op.batchValid (m : KV) : Op → Bool
  | .batchCreateEdges items => items.all fun e => nodeEx m e.a && nodeEx m e.b
  | .batchUpdateNodes us => us.all fun x => nodeEx m x.1
  | _ => true

theorem expand_basic (op : Op) : ∀ o ∈ op.expand, o.isBasic = true := by
  cases op <;> simp [Op.expand, Op.isBasic] <;> intros <;> subst_vars <;> rfl

/-- `create_node_internal` as a store transformer -/
def cnKV (id l v : Nat) (m : KV) : KV :=
  upd (upd (upd m (.out id) (some (.list []))) (.inn id) (some (.list []))) (.node id) (some (.node [l] v))

theorem run1_createNodeFrom (id l v : Nat) (s : St) :
    run1 (createNodeFrom id l v) s = (.id id, { s with kv := cnKV id l v s.kv }) := rfl

theorem apply_createNode (s : St) (l v : Nat) :
    apply s (.createNode l v) = (.id (s.nn + 1), { s with nn := s.nn + 1, kv := cnKV (s.nn + 1) l v s.kv }) := rfl

def cnAll : Nat → List (Nat × Nat) → KV → KV
  | _, [], m => m
  | id, x :: rest, m => cnAll (id + 1) rest (cnKV id x.1 x.2 m)

theorem run1_bcnLoop (start : Nat) (c : Prog) : ∀ (items : List (Nat × Nat)) (i : Nat) (s : St),
    run1 (bcnLoop start items i c) s = run1 c { s with kv := cnAll (start + i) items s.kv } := by
  intro items
  induction items with
  | nil => intro i s; rfl
  | cons x rest ih =>
    intro i s
    obtain ⟨l, v⟩ := x
    simp only [bcnLoop, run1_bind, run1_createNodeFrom, cnAll]
    rw [ih]; rfl

theorem applyAll_createNodes : ∀ (items : List (Nat × Nat)) (s : St),
    applyAll s (items.map fun x => Op.createNode x.1 x.2) =
      { kv := cnAll (s.nn + 1) items s.kv, nn := s.nn + items.length, ne := s.ne } := by
  intro items
  induction items with
  | nil => intro s; rfl
  | cons x rest ih =>
    intro s
    simp only [List.map_cons, applyAll, apply_createNode, ih, cnAll, List.length_cons]
    congr 1; omega

theorem batchCreateNodes_seq (s : St) (items : List (Nat × Nat)) :
    (apply s (.batchCreateNodes items)).2 = applyAll s (Op.expand (.batchCreateNodes items)) ∧
    (apply s (.batchCreateNodes items)).1 = .ids (if items.isEmpty then 0 else s.nn + 1) items.length := by
  simp only [apply, Op.prog, batchCreateNodesProg, Op.expand]
  cases items with
  | nil => exact ⟨rfl, rfl⟩
  | cons x rest =>
    simp only [List.isEmpty_cons, Bool.false_eq_true, ↓reduceIte, run1, run1_bcnLoop, applyAll_createNodes]
    refine ⟨?_, ?_⟩ <;> first | rfl | trivial

/-- `create_edge_internal` as a store transformer -/
def ceKV (eid a b : Nat) (d : Bool) (ty v : Nat) (m : KV) : KV :=
  (run1 (createEdgeFrom eid a b d ty v) ⟨m, 0, 0⟩).2.kv

theorem run1_createEdgeFrom (eid a b : Nat) (d : Bool) (ty v : Nat) (s : St) :
    run1 (createEdgeFrom eid a b d ty v) s = (.id eid, { s with kv := ceKV eid a b d ty v s.kv }) := by
  cases d <;> rfl

theorem nodeEx_ceKV (eid a b : Nat) (d : Bool) (ty v : Nat) (m : KV) (n : Nat) :
    nodeEx (ceKV eid a b d ty v m) n = nodeEx m n :=
  (createEdgeFrom_spec ⟨m, 0, 0⟩ eid a b d ty v).2.2.2.1 n

theorem apply_createEdge_ok (s : St) (a b : Nat) (d : Bool) (ty v : Nat)
    (ha : nodeEx s.kv a = true) (hb : nodeEx s.kv b = true) :
    apply s (.createEdge a b d ty v) =
      (.id (s.ne + 1), { s with ne := s.ne + 1, kv := ceKV (s.ne + 1) a b d ty v s.kv }) := by
  unfold nodeEx at ha hb
  simp only [apply, Op.prog, createEdgeProg, createEdgeCheckB, createEdgeAlloc, run1, ha, hb,
    Bool.not_true, Bool.false_eq_true, ↓reduceIte, run1_createEdgeFrom]

def ceAll : Nat → List EdgeIn → KV → KV
  | _, [], m => m
  | id, e :: rest, m => ceAll (id + 1) rest (ceKV id e.a e.b e.d e.ty e.v m)

def endpointsExist (m : KV) (items : List EdgeIn) : Bool :=
  items.all fun e => nodeEx m e.a && nodeEx m e.b

theorem run1_bceLoop (start : Nat) (c : Prog) : ∀ (items : List EdgeIn) (i : Nat) (s : St),
    run1 (bceLoop start items i c) s = run1 c { s with kv := ceAll (start + i) items s.kv } := by
  intro items
  induction items with
  | nil => intro i s; rfl
  | cons x rest ih =>
    intro i s
    simp only [bceLoop, run1_bind, run1_createEdgeFrom, ceAll]
    rw [ih]; rfl

theorem applyAll_createEdges : ∀ (items : List EdgeIn) (s : St), endpointsExist s.kv items = true →
    applyAll s (items.map fun e => Op.createEdge e.a e.b e.d e.ty e.v) =
      { kv := ceAll (s.ne + 1) items s.kv, nn := s.nn, ne := s.ne + items.length } := by
  intro items
  induction items with
  | nil => intro s _; rfl
  | cons x rest ih =>
    intro s hex
    simp only [endpointsExist, List.all_cons, Bool.and_eq_true] at hex
    obtain ⟨⟨ha, hb⟩, hrest⟩ := hex
    simp only [List.map_cons, applyAll, apply_createEdge_ok s _ _ _ _ _ ha hb]
    rw [ih]
    · simp only [ceAll, List.length_cons]; congr 1; omega
    · simp only [endpointsExist, List.all_eq_true, Bool.and_eq_true] at hrest ⊢
      intro e he; simp only [nodeEx_ceKV]; exact hrest e he

theorem run1_bceValidate (c : Prog) : ∀ (items : List EdgeIn) (idx : Nat) (s : St),
    (endpointsExist s.kv items = true ∧ run1 (bceValidate items idx c) s = run1 c s) ∨
    (endpointsExist s.kv items = false ∧ ∃ i n, run1 (bceValidate items idx c) s = (.batchInvalid i n, s) ∧
      nodeEx s.kv n = false) := by
  intro items
  induction items with
  | nil => intro idx s; exact Or.inl ⟨rfl, rfl⟩
  | cons x rest ih =>
    intro idx s
    have hcons : endpointsExist s.kv (x :: rest) =
        (nodeEx s.kv x.a && nodeEx s.kv x.b && endpointsExist s.kv rest) := by simp [endpointsExist]
    rw [hcons]
    simp only [bceValidate, run1]
    cases ha : (s.kv (.node x.a)).isSome with
    | false =>
      have hna : nodeEx s.kv x.a = false := ha
      exact Or.inr ⟨by simp [hna], idx, x.a, by simp [run1], hna⟩
    | true =>
      have hna : nodeEx s.kv x.a = true := ha
      simp only [Bool.not_true, Bool.false_eq_true, ↓reduceIte, run1]
      cases hb : (s.kv (.node x.b)).isSome with
      | false =>
        have hnb : nodeEx s.kv x.b = false := hb
        exact Or.inr ⟨by simp [hnb], idx, x.b, by simp [run1], hnb⟩
      | true =>
        have hnb : nodeEx s.kv x.b = true := hb
        simp only [Bool.not_true, Bool.false_eq_true, ↓reduceIte, hna, hnb, Bool.and_self, Bool.true_and]
        exact ih (idx + 1) s

theorem batchCreateEdges_seq (s : St) (items : List EdgeIn) :
    (apply s (.batchCreateEdges items)).2 =
      if endpointsExist s.kv items then applyAll s (Op.expand (.batchCreateEdges items)) else s := by
  simp only [apply, Op.prog, batchCreateEdgesProg, Op.expand]
  cases items with
  | nil => rfl
  | cons x rest =>
    simp only [List.isEmpty_cons, Bool.false_eq_true, ↓reduceIte]
    rcases run1_bceValidate (.allocEs (x :: rest).length fun start =>
        bceLoop start (x :: rest) 0 (.done (.ids start (x :: rest).length))) (x :: rest) 0 s with ⟨h1, h2⟩ | ⟨h1, i, n, h2, _⟩
    · rw [h2, h1, if_pos rfl, applyAll_createEdges _ _ h1]
      simp only [run1, run1_bceLoop] <;> try rfl
    · rw [h2, h1]; rfl

/-- result of a failed / successful `batch_create_edges` -/
theorem batchCreateEdges_res (s : St) (items : List EdgeIn) :
    (endpointsExist s.kv items = true ∧
      (apply s (.batchCreateEdges items)).1 = .ids (if items.isEmpty then 0 else s.ne + 1) items.length) ∨
    (endpointsExist s.kv items = false ∧ ∃ i n, (apply s (.batchCreateEdges items)).1 = .batchInvalid i n ∧
      nodeEx s.kv n = false) := by
  simp only [apply, Op.prog, batchCreateEdgesProg]
  cases items with
  | nil => exact Or.inl ⟨rfl, rfl⟩
  | cons x rest =>
    simp only [List.isEmpty_cons, Bool.false_eq_true, ↓reduceIte]
    rcases run1_bceValidate (.allocEs (x :: rest).length fun start =>
        bceLoop start (x :: rest) 0 (.done (.ids start (x :: rest).length))) (x :: rest) 0 s with ⟨h1, h2⟩ | ⟨h1, i, n, h2, h3⟩
    · refine Or.inl ⟨h1, ?_⟩
      rw [h2]; simp only [run1, run1_bceLoop]
    · exact Or.inr ⟨h1, i, n, by rw [h2], h3⟩

theorem bdeLoop_seq : ∀ (es : List Nat) (idx : Nat) (del : List Nat) (fl : List (Nat × Nat × Cause)) (s : St),
    (run1 (bdeLoop es idx del fl) s).2 = applyAll s (es.map .deleteEdge) := by
  intro es
  induction es with
  | nil => intro idx del fl s; rfl
  | cons e es ih =>
    intro idx del fl s
    simp only [bdeLoop, run1_bind, List.map_cons, applyAll]
    have : run1 (deleteEdgeProg e) s = apply s (.deleteEdge e) := rfl
    rw [this]
    cases (apply s (.deleteEdge e)).1 <;> exact ih _ _ _ _

theorem bdnLoop_seq : ∀ (ns : List (Nat × List Nat)) (idx : Nat) (del : List Nat) (fl : List (Nat × Nat × Cause)) (s : St),
    (run1 (bdnLoop ns idx del fl) s).2 = applyAll s (ns.map fun x => .deleteNode x.1 x.2) := by
  intro ns
  induction ns with
  | nil => intro idx del fl s; rfl
  | cons x ns ih =>
    intro idx del fl s
    obtain ⟨n, hint⟩ := x
    simp only [bdnLoop, run1_bind, List.map_cons, applyAll]
    have : run1 (deleteNodeProg n hint) s = apply s (.deleteNode n hint) := rfl
    rw [this]
    cases (apply s (.deleteNode n hint)).1 <;> exact ih _ _ _ _

theorem bunLoop_seq : ∀ (us : List (Nat × Option Nat × Nat)) (cnt : Nat) (s : St),
    (run1 (bunLoop us cnt) s).2 = applyAll s (us.map fun x => .updateNode x.1 x.2.1 x.2.2) := by
  intro us
  induction us with
  | nil => intro cnt s; rfl
  | cons x us ih =>
    intro cnt s
    obtain ⟨n, lab, v⟩ := x
    simp only [bunLoop, run1_bind, List.map_cons, applyAll]
    have : run1 (updateNodeProg n lab v) s = apply s (.updateNode n lab v) := rfl
    rw [this]
    cases (apply s (.updateNode n lab v)).1 <;> exact ih _ _

def nodesExist (m : KV) (us : List (Nat × Option Nat × Nat)) : Bool := us.all fun x => nodeEx m x.1

theorem run1_bunValidate (c : Prog) : ∀ (us : List (Nat × Option Nat × Nat)) (idx : Nat) (s : St),
    (nodesExist s.kv us = true ∧ run1 (bunValidate us idx c) s = run1 c s) ∨
    (nodesExist s.kv us = false ∧ ∃ i n, run1 (bunValidate us idx c) s = (.batchInvalid i n, s) ∧
      nodeEx s.kv n = false) := by
  intro us
  induction us with
  | nil => intro idx s; exact Or.inl ⟨rfl, rfl⟩
  | cons x rest ih =>
    intro idx s
    obtain ⟨n, lab, v⟩ := x
    simp only [bunValidate, run1, nodesExist, List.all_cons]
    cases hv : s.kv (.node n) with
    | none => exact Or.inr ⟨by simp [nodeEx, hv], idx, n, by simp [run1], by simp [nodeEx, hv]⟩
    | some val =>
      simp only [nodeEx, hv, Option.isSome_some, Bool.true_and]
      exact ih (idx + 1) s

theorem batchUpdateNodes_seq (s : St) (us : List (Nat × Option Nat × Nat)) :
    (apply s (.batchUpdateNodes us)).2 =
      if nodesExist s.kv us then applyAll s (Op.expand (.batchUpdateNodes us)) else s := by
  simp only [apply, Op.prog, batchUpdateNodesProg, Op.expand]
  rcases run1_bunValidate (bunLoop us 0) us 0 s with ⟨h1, h2⟩ | ⟨h1, i, n, h2, _⟩
  · rw [h2, h1, if_pos rfl, bunLoop_seq]
  · rw [h2, h1]; rfl


/-! ### what the batch deletes / updates answer -/

/-- the answers of the single operations run one after the other -/
def seqRes (s : St) : List Op → List Res
  | [] => []
  | op :: ops => (apply s op).1 :: seqRes (apply s op).2 ops

/-- `BatchDeleteResult` from the answers of the single deletes: the ids that answered `ok`, and
    (input index, id, cause) of the others, both in input order -/
def delOutcome : Nat → List Nat → List Res → List Nat × List (Nat × Nat × Cause)
  | _, [], _ => ([], [])
  | _, _, [] => ([], [])
  | idx, x :: xs, r :: rs =>
    match r with
    | .ok => (x :: (delOutcome (idx + 1) xs rs).1, (delOutcome (idx + 1) xs rs).2)
    | r => ((delOutcome (idx + 1) xs rs).1, (idx, x, causeOf r) :: (delOutcome (idx + 1) xs rs).2)

theorem bdeLoop_res : ∀ (es : List Nat) (idx : Nat) (del : List Nat) (fl : List (Nat × Nat × Cause)) (s : St),
    (run1 (bdeLoop es idx del fl) s).1 =
      .batchDel (del.reverse ++ (delOutcome idx es (seqRes s (es.map .deleteEdge))).1)
        (fl.reverse ++ (delOutcome idx es (seqRes s (es.map .deleteEdge))).2) := by
  intro es
  induction es with
  | nil => intro idx del fl s; simp [bdeLoop, run1, delOutcome]
  | cons e es ih =>
    intro idx del fl s
    simp only [bdeLoop, run1_bind, List.map_cons, seqRes]
    have : run1 (deleteEdgeProg e) s = apply s (.deleteEdge e) := rfl
    rw [this]
    cases hres : (apply s (.deleteEdge e)).1 <;> simp only [delOutcome] <;> rw [ih] <;> simp

theorem bdnLoop_res : ∀ (ns : List (Nat × List Nat)) (idx : Nat) (del : List Nat) (fl : List (Nat × Nat × Cause)) (s : St),
    (run1 (bdnLoop ns idx del fl) s).1 =
      .batchDel (del.reverse ++ (delOutcome idx (ns.map Prod.fst) (seqRes s (ns.map fun x => .deleteNode x.1 x.2))).1)
        (fl.reverse ++ (delOutcome idx (ns.map Prod.fst) (seqRes s (ns.map fun x => .deleteNode x.1 x.2))).2) := by
  intro ns
  induction ns with
  | nil => intro idx del fl s; simp [bdnLoop, run1, delOutcome]
  | cons x ns ih =>
    intro idx del fl s
    obtain ⟨n, hint⟩ := x
    simp only [bdnLoop, run1_bind, List.map_cons, seqRes]
    have : run1 (deleteNodeProg n hint) s = apply s (.deleteNode n hint) := rfl
    rw [this]
    cases hres : (apply s (.deleteNode n hint)).1 <;> simp only [delOutcome] <;> rw [ih] <;> simp

def countOk : List Res → Nat
  | [] => 0
  | .ok :: rs => countOk rs + 1
  | _ :: rs => countOk rs

theorem bunLoop_res : ∀ (us : List (Nat × Option Nat × Nat)) (cnt : Nat) (s : St),
    (run1 (bunLoop us cnt) s).1 =
      .count (cnt + countOk (seqRes s (us.map fun x => .updateNode x.1 x.2.1 x.2.2))) := by
  intro us
  induction us with
  | nil => intro cnt s; simp [bunLoop, run1, seqRes, countOk]
  | cons x us ih =>
    intro cnt s
    obtain ⟨n, lab, v⟩ := x
    simp only [bunLoop, run1_bind, List.map_cons, seqRes]
    have : run1 (updateNodeProg n lab v) s = apply s (.updateNode n lab v) := rfl
    rw [this]
    cases hres : (apply s (.updateNode n lab v)).1 <;> simp only [countOk] <;> rw [ih] <;> try (congr 1; omega)

/-- every batch call either does nothing (its validation phase failed) or leaves exactly the store
    and counters of the sequence of single operations it stands for -/
theorem batch_seq (s : St) (op : Op) :
    (apply s op).2 = if op.batchValid s.kv then applyAll s op.expand else s := by
  cases op with
  | batchCreateNodes items => simpa [Op.batchValid] using (batchCreateNodes_seq s items).1
  | batchCreateEdges items => exact batchCreateEdges_seq s items
  | batchDeleteEdges ids => simp only [Op.batchValid, if_true, Op.expand]; exact bdeLoop_seq ids 0 [] [] s
  | batchDeleteNodes ids => simp only [Op.batchValid, if_true, Op.expand]; exact bdnLoop_seq ids 0 [] [] s
  | batchUpdateNodes us => exact batchUpdateNodes_seq s us
  | _ => simp [Op.batchValid, Op.expand, applyAll]

theorem inv_apply (s : St) (op : Op) (h : Inv s) : Inv (apply s op).2 := by
  rw [batch_seq]
  split
  · exact inv_applyAll_basic _ (expand_basic op) s h
  · exact h

theorem inv_applyAll (ops : List Op) : ∀ s, Inv s → Inv (applyAll s ops) := by
  induction ops with
  | nil => intro s h; exact h
  | cons op ops ih => intro s h; exact ih _ (inv_apply s op h)

end Neumann.Graph
