import NeumannModel.Common.Proto
import NeumannModel.Graph.Model
/- Line-protocol driver for the graph model (C05).

   sequential (state kept between lines):
     reset | cnode <label> <v> | cedge <a> <b> <d> <ty> <v> | dedge <e> | dnode <n> <hint|->
     unode <n> <label|-> <v> | uedge <e> <v>
     neigh <n> <out|in|both> <ty|-> | deg <n> | trav <n> <out|in|both> <depth> <ty|->
     alabel <n> <l> | rlabel <n> <l> | bcn <l.v/l.v/…|-> | bce <a.b.d.ty.v/…|-> | bde <e/e/…|-> |
     bdn <n.h.h…/n/…|-> (node then the iteration order of its edge set) | bun <n.l|-.v/…|-> | reopen
     eof <n> <dir> | eofp <n> <dir> <skip> <limit|-> | neighp <n> <dir> <ty|-> <skip> <limit|-> | degty <n> <ty>
     alledges | allnodes | counts | gedge <e> | gnode <n> | nex <n>
     image | wf
   concurrent, from the current state:
     run <thread;thread;…> <schedule>      thread = op+op+… , op = cnode:l:v | cedge:a:b:d:ty:v |
                                           dedge:e | dnode:n:hint(. separated or -) | unode:n:l:v | uedge:e:v
-/
open Neumann Neumann.Proto Neumann.Graph

def showKey : Key → String
  | .node n => s!"node:{n}"
  | .edge e => s!"edge:{e}"
  | .out n => s!"node:{n}:out"
  | .inn n => s!"node:{n}:in"

def showSite : Site → String
  | .get => "get" | .put => "put" | .del => "delete" | .ex => "exists"

def showRes : Res → String
  | .id n => s!"ok {n}"
  | .ok => "ok"
  | .nodeNotFound n => s!"err node_not_found {n}"
  | .edgeNotFound e => s!"err edge_not_found {e}"
  | .storage => "err storage"
  | .partialDel => "err partial"
  | .ids first cnt => "ok ids " ++ showNats ((List.range cnt).map (· + first))
  | .batchInvalid idx n => s!"err batch_invalid {idx} node_not_found {n}"
  | .batchDel del failed => "ok deleted " ++ showNats del ++ " failed " ++
      (if failed.isEmpty then "-" else ",".intercalate (failed.map fun (i, x, c) =>
        s!"{i}:{x}:" ++ (match c with | .notFound => "not_found" | .storage => "storage" | .partialDel => "partial")))
  | .count n => s!"ok count {n}"

def showLabels (l : List Nat) : String :=
  if l.isEmpty then "-" else ".".intercalate (l.map toString)

def showOptList : Option (List Nat) → String
  | none => "err node_not_found"
  | some l => "ok " ++ showNats l

def showImage (s : St) : String :=
  let ns := (List.range (s.nn + 2))
  let es := (List.range (s.ne + 2))
  let nodes := ns.filterMap fun n => match s.kv (.node n) with
    | some (.node l v) => some s!"{n}({showLabels l},{v})"
    | some _ => some s!"{n}(?)"
    | none => none
  let edges := es.filterMap fun e => match s.kv (.edge e) with
    | some (.edge r) => some s!"{e}({r.src}>{r.dst},{if r.directed then 1 else 0},{r.ty},{r.ver})"
    | some _ => some s!"{e}(?)"
    | none => none
  let outs := ns.filterMap fun n => match s.kv (.out n) with
    | some v => some s!"{n}=[{showNats (listOfVal v)}]"
    | none => none
  let ins := ns.filterMap fun n => match s.kv (.inn n) with
    | some v => some s!"{n}=[{showNats (listOfVal v)}]"
    | none => none
  "N:" ++ " ".intercalate nodes ++ "|E:" ++ " ".intercalate edges ++
  "|O:" ++ " ".intercalate outs ++ "|I:" ++ " ".intercalate ins

def parseDir : String → Option Dir
  | "out" => some .outgoing | "in" => some .incoming | "both" => some .both | _ => none

def parseOptNat (s : String) : Option (Option Nat) :=
  if s = "-" then some none else s.toNat?.map some

def parseHint (s : String) : Option (List Nat) :=
  if s = "-" then some [] else (s.splitOn ".").mapM (·.toNat?)

def parseItems {α : Type} (s : String) (f : List String → Option α) : Option (List α) :=
  if s = "-" then some [] else (s.splitOn "/").mapM fun it => f (it.splitOn ".")

def parseOp (s : String) : Option Op :=
  match s.splitOn ":" with
  | ["alabel", n, l] => do pure (.addLabel (← n.toNat?) (← l.toNat?))
  | ["rlabel", n, l] => do pure (.removeLabel (← n.toNat?) (← l.toNat?))
  | ["bcn", items] => do
      pure (.batchCreateNodes (← parseItems items fun
        | [l, v] => do pure ((← l.toNat?), (← v.toNat?))
        | _ => none))
  | ["bce", items] => do
      pure (.batchCreateEdges (← parseItems items fun
        | [a, b, d, ty, v] => do
            pure ⟨(← a.toNat?), (← b.toNat?), (← d.toNat?) != 0, (← ty.toNat?), (← v.toNat?)⟩
        | _ => none))
  | ["bde", items] => do
      pure (.batchDeleteEdges (← parseItems items fun
        | [e] => e.toNat?
        | _ => none))
  | ["bdn", items] => do
      pure (.batchDeleteNodes (← parseItems items fun
        | n :: hint => do pure ((← n.toNat?), (← hint.mapM (·.toNat?)))
        | _ => none))
  | ["bun", items] => do
      pure (.batchUpdateNodes (← parseItems items fun
        | [n, l, v] => do pure ((← n.toNat?), (← parseOptNat l), (← v.toNat?))
        | _ => none))
  | ["cnode", l, v] => do pure (.createNode (← l.toNat?) (← v.toNat?))
  | ["cedge", a, b, d, ty, v] => do
      pure (.createEdge (← a.toNat?) (← b.toNat?) ((← d.toNat?) != 0) (← ty.toNat?) (← v.toNat?))
  | ["dedge", e] => do pure (.deleteEdge (← e.toNat?))
  | ["dnode", n, h] => do pure (.deleteNode (← n.toNat?) (← parseHint h))
  | ["unode", n, l, v] => do pure (.updateNode (← n.toNat?) (← parseOptNat l) (← v.toNat?))
  | ["uedge", e, v] => do pure (.updateEdge (← e.toNat?) (← v.toNat?))
  | _ => none

def parseThread (s : String) : Option (List Op) :=
  if s = "-" then some [] else (s.splitOn "+").mapM parseOp

def showThread (t : Thread) : String :=
  let rs := (match t.cur with
    | some (.done r) => if t.rest.isEmpty then r :: t.results else t.results
    | _ => t.results).reverse
  ",".intercalate (rs.map showRes) ++ "#" ++
  ",".intercalate (t.trace.reverse.map fun (st, k) => showSite st ++ " " ++ showKey k) ++
  (if t.finished then "" else "#unfinished")

def showRec (x : Nat × EdgeRec) : String :=
  s!"{x.1}({x.2.src}>{x.2.dst},{if x.2.directed then 1 else 0},{x.2.ty},{x.2.ver})"

def showRecs (l : List (Nat × EdgeRec)) : String :=
  if l.isEmpty then "-" else " ".intercalate (l.map showRec)

def graphStep (s : St) (line : String) : St × String :=
  let bad := (s, "bad-op")
  let seq (op : Option Op) : St × String :=
    match op with
    | none => bad
    | some op => let (r, s') := apply s op; (s', showRes r)
  match words line with
  | ["reset"] => (St.empty, "ok")
  | ["cnode", l, v] => seq (parseOp s!"cnode:{l}:{v}")
  | ["cedge", a, b, d, ty, v] => seq (parseOp s!"cedge:{a}:{b}:{d}:{ty}:{v}")
  | ["dedge", e] => seq (parseOp s!"dedge:{e}")
  | ["dnode", n, h] => seq (parseOp s!"dnode:{n}:{h}")
  | ["unode", n, l, v] => seq (parseOp s!"unode:{n}:{l}:{v}")
  | ["uedge", e, v] => seq (parseOp s!"uedge:{e}:{v}")
  | ["alabel", n, l] => seq (parseOp s!"alabel:{n}:{l}")
  | ["rlabel", n, l] => seq (parseOp s!"rlabel:{n}:{l}")
  | ["bcn", items] => seq (parseOp s!"bcn:{items}")
  | ["bce", items] => seq (parseOp s!"bce:{items}")
  | ["bde", items] => seq (parseOp s!"bde:{items}")
  | ["bdn", items] => seq (parseOp s!"bdn:{items}")
  | ["bun", items] => seq (parseOp s!"bun:{items}")
  | ["reopen"] => (reopen s, "ok")
  | ["eof", n, d] => match n.toNat?, parseDir d with
      | some n, some d => (s, match edgesOf s.kv n d with
          | some l => "ok " ++ showRecs l
          | none => "err node_not_found")
      | _, _ => bad
  | ["eofp", n, d, sk, lim] => match n.toNat?, parseDir d, sk.toNat?, parseOptNat lim with
      | some n, some d, some sk, some lim => (s, match edgesOfPage s.kv n d sk lim with
          | some (l, tot, more) => s!"ok {showRecs l} total={tot} more={if more then 1 else 0}"
          | none => "err node_not_found")
      | _, _, _, _ => bad
  | ["neighp", n, d, ty, sk, lim] => match n.toNat?, parseDir d, parseOptNat ty, sk.toNat?, parseOptNat lim with
      | some n, some d, some ty, some sk, some lim => (s, match neighborsPage s.kv n d ty sk lim with
          | some (l, tot, more) => s!"ok {showNats l} total={tot} more={if more then 1 else 0}"
          | none => "err node_not_found")
      | _, _, _, _, _ => bad
  | ["degty", n, ty] => match n.toNat?, ty.toNat? with
      | some n, some ty => (s, match outDegreeByType s.kv n ty, inDegreeByType s.kv n ty, degreeByType s.kv n ty with
          | some o, some i, some t => s!"ok {o} {i} {t}"
          | _, _, _ => "err node_not_found")
      | _, _ => bad
  | ["alledges"] => (s, showRecs (allEdges s))
  | ["allnodes"] => (s, showNats (allNodeIds s))
  | ["counts"] => (s, s!"{nodeCount s} {edgeCount s}")
  | ["gedge", e] => match e.toNat? with
      | some e => (s, match edgeAt s.kv e with
          | some r => "ok " ++ showRec (e, r)
          | none => s!"err edge_not_found {e}")
      | none => bad
  | ["gnode", n] => match n.toNat? with
      | some n => (s, match s.kv (.node n) with
          | some v => s!"ok {showLabels (labelsOf v)},{propOf v}"
          | none => s!"err node_not_found {n}")
      | none => bad
  | ["nex", n] => match n.toNat? with
      | some n => (s, if nodeEx s.kv n then "1" else "0")
      | none => bad
  | ["neigh", n, d, ty] => match n.toNat?, parseDir d, parseOptNat ty with
      | some n, some d, some ty => (s, showOptList (neighbors s.kv n d ty))
      | _, _, _ => bad
  | ["deg", n] => match n.toNat? with
      | some n => (s, match outDegree s.kv n, inDegree s.kv n, degree s.kv n with
          | some o, some i, some t => s!"ok {o} {i} {t}"
          | _, _, _ => "err node_not_found")
      | none => bad
  | ["trav", n, d, depth, ty] => match n.toNat?, parseDir d, depth.toNat?, parseOptNat ty with
      | some n, some d, some k, some ty => (s, showOptList (traverse s.kv n d k ty))
      | _, _, _, _ => bad
  | ["image"] => (s, showImage s)
  | ["wf"] => (s, match wfCheck s with | none => "ok" | some c => "bad " ++ c)
  | ["run", ths, sched] => match (ths.splitOn ";").mapM parseThread, parseNats sched with
      | some progs, some sc =>
        let (ts, s') := runSched progs sc s
        (s', "|".intercalate (ts.map showThread))
      | _, _ => bad
  | _ => bad

def main : IO Unit := run graphStep St.empty
