import NeumannModel.Graph.Atomic
/-
  C05 — the read-modify-write sections of an adjacency list are mutually exclusive, for EVERY
  operation of the model (`delete_node` with both of its paths, `batch_delete_nodes` and all the other
  batch calls included), from any store, under every schedule.

  A thread is "inside a read-modify-write of list K" (`Thread.inRmw`) when its last store call was
  `store.get K` and its next one is `store.put K`: exactly what the harness reads off the yield trace
  of a real thread (`rmw_sections`).  `list_rmw_sections_exclusive`: two threads are never inside a
  read-modify-write of the same list at the same time.  Nothing about the store is needed: the proof
  only looks at the SHAPE of the programs (`WB`: every `put` that follows a `get` of the same list key is
  the write-back of `add_edge_to_list` / `remove_edge_from_list`, bracketed by the acquire and the
  release of that key's lock) and at the lock semantics of `runThreads`.
-/
set_option linter.unusedSimpArgs false
set_option linter.unusedVariables false
namespace Neumann.Graph

/-- the first store call of `p` exists before the operation ends and is not a `put` of `k` -/
inductive NoPut (k : Key) : Prog → Prop where
  | get (k' : Key) (c : Option Val → Prog) : NoPut k (.get k' c)
  | put (k' : Key) (v : Val) (c : Prog) : k' ≠ k → NoPut k (.put k' v c)
  | del (k' : Key) (c : Bool → Prog) : NoPut k (.del k' c)
  | ex (k' : Key) (c : Bool → Prog) : NoPut k (.ex k' c)
  | acq (k' : Key) (c : Prog) : NoPut k c → NoPut k (.acq k' c)
  | rel (k' : Key) (c : Prog) : NoPut k c → NoPut k (.rel k' c)
  | allocN (c : Nat → Prog) : (∀ n, NoPut k (c n)) → NoPut k (.allocN c)
  | allocE (c : Nat → Prog) : (∀ n, NoPut k (c n)) → NoPut k (.allocE c)
  | allocNs (cnt : Nat) (c : Nat → Prog) : (∀ n, NoPut k (c n)) → NoPut k (.allocNs cnt c)
  | allocEs (cnt : Nat) (c : Nat → Prog) : (∀ n, NoPut k (c n)) → NoPut k (.allocEs cnt c)

/-- well-bracketed (outside any section): a `get` of a list key is never followed by a `put` of that key
    except inside `acq k; get k; (put k;)? rel k` -/
inductive WB : Prog → Prop where
  | done (r : Res) : WB (.done r)
  | get (k : Key) (c : Option Val → Prog) : (∀ v, WB (c v)) → (k.isList = true → ∀ v, NoPut k (c v)) → WB (.get k c)
  | put (k : Key) (v : Val) (c : Prog) : WB c → WB (.put k v c)
  | del (k : Key) (c : Bool → Prog) : (∀ b, WB (c b)) → WB (.del k c)
  | ex (k : Key) (c : Bool → Prog) : (∀ b, WB (c b)) → WB (.ex k c)
  | allocN (c : Nat → Prog) : (∀ n, WB (c n)) → WB (.allocN c)
  | allocE (c : Nat → Prog) : (∀ n, WB (c n)) → WB (.allocE c)
  | allocNs (cnt : Nat) (c : Nat → Prog) : (∀ n, WB (c n)) → WB (.allocNs cnt c)
  | allocEs (cnt : Nat) (c : Nat → Prog) : (∀ n, WB (c n)) → WB (.allocEs cnt c)
  | sect (k : Key) (f : Option Val → Prog) (c : Prog) : WB c →
      (∀ v, (f v = .rel k c ∧ NoPut k c) ∨ ∃ w, f v = .put k w (.rel k c)) → WB (.acq k (.get k f))

/-! ### every operation is well-bracketed -/

theorem NoPut.bind {k : Key} {p : Prog} (h : NoPut k p) (f : Res → Prog) : NoPut k (p.bind f) := by
  induction h with
  | get k' c => exact .get _ _
  | put k' v c hne => exact .put _ _ _ hne
  | del k' c => exact .del _ _
  | ex k' c => exact .ex _ _
  | acq k' c _ ih => exact .acq _ _ ih
  | rel k' c _ ih => exact .rel _ _ ih
  | allocN c _ ih => exact .allocN _ ih
  | allocE c _ ih => exact .allocE _ ih
  | allocNs cnt c _ ih => exact .allocNs _ _ ih
  | allocEs cnt c _ ih => exact .allocEs _ _ ih

theorem WB.bind {p : Prog} (h : WB p) {f : Res → Prog} (hf : ∀ r, WB (f r)) : WB (p.bind f) := by
  induction h with
  | done r => exact hf r
  | get k c _ hn ih => exact .get _ _ ih (fun hk v => (hn hk v).bind f)
  | put k v c _ ih => exact .put _ _ _ ih
  | del k c _ ih => exact .del _ _ ih
  | ex k c _ ih => exact .ex _ _ ih
  | allocN c _ ih => exact .allocN _ ih
  | allocE c _ ih => exact .allocE _ ih
  | allocNs cnt c _ ih => exact .allocNs _ _ ih
  | allocEs cnt c _ ih => exact .allocEs _ _ ih
  | sect k f0 c _ hs ih =>
    refine .sect k (fun v => (f0 v).bind f) (c.bind f) ih ?_
    intro v
    rcases hs v with ⟨h1, h2⟩ | ⟨w, h1⟩
    · left; exact ⟨by simp only [h1, Prog.bind], h2.bind f⟩
    · right; exact ⟨w, by simp only [h1, Prog.bind]⟩

theorem WB_addTo (k : Key) (e : Nat) {c : Prog} (hc : WB c) : WB (addTo k e c) :=
  .sect k _ c hc (fun v => Or.inr ⟨_, rfl⟩)

theorem WB_rmFrom (k : Key) (e : Nat) {c : Prog} (hc : WB c) (hn : NoPut k c) : WB (rmFrom k e c) := by
  refine .sect k _ c hc (fun v => ?_)
  cases v with
  | none => exact Or.inl ⟨rfl, hn⟩
  | some val => exact Or.inr ⟨_, rfl⟩

theorem NoPut_rmFrom (k k' : Key) (e : Nat) (c : Prog) : NoPut k (rmFrom k' e c) := .acq _ _ (.get _ _)
theorem NoPut_addTo (k k' : Key) (e : Nat) (c : Prog) : NoPut k (addTo k' e c) := .acq _ _ (.get _ _)

theorem WB_createNodeFrom (id l v : Nat) : WB (createNodeFrom id l v) :=
  .put _ _ _ (.put _ _ _ (.put _ _ _ (.done _)))

theorem WB_createEdgeFrom (x a b : Nat) (d : Bool) (ty v : Nat) : WB (createEdgeFrom x a b d ty v) := by
  unfold createEdgeFrom
  refine .put _ _ _ (WB_addTo _ _ (WB_addTo _ _ ?_))
  cases d
  · exact WB_addTo _ _ (WB_addTo _ _ (.done _))
  · exact .done _

theorem WB_createEdgeProg (a b : Nat) (d : Bool) (ty v : Nat) : WB (createEdgeProg a b d ty v) := by
  refine .ex _ _ (fun oka => ?_)
  cases oka
  · exact .done _
  · refine .ex _ _ (fun okb => ?_)
    cases okb
    · exact .done _
    · exact .allocE _ (fun x => WB_createEdgeFrom x a b d ty v)

theorem WB_delTail (e : Nat) : WB (.del (.edge e) fun ok => .done (if ok then .ok else .storage)) :=
  .del _ _ (fun _ => .done _)

theorem WB_deleteEdgeBody (e : Nat) (r : EdgeRec) : WB (deleteEdgeBody e r) := by
  unfold deleteEdgeBody
  cases r.directed
  · exact WB_rmFrom _ _ (WB_rmFrom _ _ (WB_rmFrom _ _ (WB_rmFrom _ _ (WB_delTail e) (.del _ _)) (NoPut_rmFrom ..))
      (NoPut_rmFrom ..)) (NoPut_rmFrom ..)
  · exact WB_rmFrom _ _ (WB_rmFrom _ _ (WB_delTail e) (.del _ _)) (NoPut_rmFrom ..)

theorem WB_deleteEdgeProg (e : Nat) : WB (deleteEdgeProg e) := by
  refine .get _ _ (fun v => ?_) (fun hk => by simp [Key.isList] at hk)
  cases edgeOf v with
  | none => exact .done _
  | some r => exact WB_deleteEdgeBody e r

/-- the per-edge clean-up of `delete_node`, followed by a continuation that starts with the delete of
    the edge record -/
theorem WB_delNodeEdge (id e : Nat) (r : EdgeRec) {c : Prog} (hc : WB c) (hn : ∀ k, NoPut k c) :
    WB (delNodeEdge id e r c) ∧ ∀ k, NoPut k (delNodeEdge id e r c) := by
  have step : ∀ k p, (WB p ∧ ∀ k', NoPut k' p) → (WB (rmFrom k e p) ∧ ∀ k', NoPut k' (rmFrom k e p)) :=
    fun k p h => ⟨WB_rmFrom _ _ h.1 (h.2 _), fun k' => NoPut_rmFrom ..⟩
  have base : WB c ∧ ∀ k', NoPut k' c := ⟨hc, hn⟩
  by_cases h1 : r.src = id <;> by_cases h2 : r.dst = id <;>
    simp only [delNodeEdge, h1, h2, if_true, if_false] <;> split <;>
    repeat (first | exact base | apply step)

theorem WB_delNodeTail (id : Nat) : WB (delNodeTail id) := by
  refine .del _ _ (fun ok1 => ?_)
  cases ok1
  · exact .done _
  · refine .del _ _ (fun ok2 => ?_)
    cases ok2
    · exact .done _
    · exact .del _ _ (fun _ => .done _)

theorem WB_delNodeLoop (id : Nat) {c : Prog} (hc : WB c) (hn : ∀ k, NoPut k c) :
    ∀ es, WB (delNodeLoop id es c) ∧ ∀ k, NoPut k (delNodeLoop id es c) := by
  intro es
  induction es with
  | nil => exact ⟨hc, hn⟩
  | cons e es ih =>
    refine ⟨?_, fun k => .get _ _⟩
    refine .get _ _ (fun v => ?_) (fun hk => by simp [Key.isList] at hk)
    cases edgeOf v with
    | none => exact .del _ _ (fun _ => ih.1)
    | some r => exact (WB_delNodeEdge id e r (.del _ _ (fun _ => ih.1)) (fun k => .del _ _)).1

theorem WB_delNodeParLoop (id : Nat) {c : Bool → Prog} (hc : ∀ b, WB (c b)) :
    ∀ es failed, WB (delNodeParLoop id es failed c) := by
  intro es
  induction es with
  | nil => intro failed; exact hc failed
  | cons e es ih =>
    intro failed
    refine .get _ _ (fun v => ?_) (fun hk => by simp [Key.isList] at hk)
    cases edgeOf v with
    | none => exact ih true
    | some r => exact (WB_delNodeEdge id e r (.del _ _ (fun ok => ih _)) (fun k => .del _ _)).1

theorem NoPut_delNodeTail (k : Key) (id : Nat) : NoPut k (delNodeTail id) := .del _ _

theorem NoPut_delNodeParLoop (k : Key) (id : Nat) (c : Bool → Prog) (hc : NoPut k (c false)) :
    ∀ es, NoPut k (delNodeParLoop id es false c)
  | [] => hc
  | _ :: _ => .get _ _

theorem WB_deleteNodeProgT (thr id : Nat) (hint : List Nat) : WB (deleteNodeProgT thr id hint) := by
  refine .get _ _ (fun v => ?_) (fun hk => by simp [Key.isList] at hk)
  cases v with
  | none => exact .done _
  | some _ =>
    refine .get _ _ (fun vo => ?_) (fun _ _ => .get _ _)
    refine .get _ _ (fun vi => ?_) (fun _ vi => ?_)
    · simp only
      split
      · exact WB_delNodeParLoop id (fun failed => by cases failed <;> first | exact WB_delNodeTail id | exact .done _) _ _
      · exact (WB_delNodeLoop id (WB_delNodeTail id) (fun k => NoPut_delNodeTail k id) _).1
    · simp only
      split
      · exact NoPut_delNodeParLoop _ id _ (by simp; exact NoPut_delNodeTail _ id) _
      · exact (WB_delNodeLoop id (WB_delNodeTail id) (fun k => NoPut_delNodeTail k id) _).2 _

theorem WB_updateNodeProg (id : Nat) (lab : Option Nat) (v : Nat) : WB (updateNodeProg id lab v) := by
  refine .get _ _ (fun v1 => ?_) (fun hk => by simp [Key.isList] at hk)
  cases v1 with
  | none => exact .done _
  | some _ =>
    refine .get _ _ (fun v2 => ?_) (fun hk => by simp [Key.isList] at hk)
    unfold updateNodePut
    split
    · exact .done _
    · exact .put _ _ _ (.done _)
    · exact .put _ _ _ (.done _)

theorem WB_updateEdgeProg (e v : Nat) : WB (updateEdgeProg e v) := by
  refine .get _ _ (fun v1 => ?_) (fun hk => by simp [Key.isList] at hk)
  cases edgeOf v1 with
  | none => exact .done _
  | some _ =>
    refine .get _ _ (fun v2 => ?_) (fun hk => by simp [Key.isList] at hk)
    unfold updateEdgePut
    split
    · exact .done _
    · exact .put _ _ _ (.done _)
    · exact .put _ _ _ (.done _)

theorem WB_labelPut (id : Nat) (labs : List Nat) (v2 : Option Val) : WB (labelPut id labs v2) := by
  unfold labelPut
  cases v2 with
  | none => exact .done _
  | some _ => exact .put _ _ _ (.done _)

theorem WB_addLabelProg (id l : Nat) : WB (addLabelProg id l) := by
  refine .get _ _ (fun v1 => ?_) (fun hk => by simp [Key.isList] at hk)
  cases v1 with
  | none => exact .done _
  | some val1 =>
    simp only
    split
    · exact .done _
    · exact .get _ _ (fun v2 => WB_labelPut _ _ v2) (fun hk => by simp [Key.isList] at hk)

theorem WB_removeLabelProg (id l : Nat) : WB (removeLabelProg id l) := by
  refine .get _ _ (fun v1 => ?_) (fun hk => by simp [Key.isList] at hk)
  cases v1 with
  | none => exact .done _
  | some val1 =>
    simp only
    split
    · exact .get _ _ (fun v2 => WB_labelPut _ _ v2) (fun hk => by simp [Key.isList] at hk)
    · exact .done _

theorem WB_bcnLoop (start : Nat) {c : Prog} (hc : WB c) : ∀ items i, WB (bcnLoop start items i c)
  | [], _ => hc
  | (l, v) :: rest, i => (WB_createNodeFrom _ l v).bind (fun _ => WB_bcnLoop start hc rest (i + 1))

theorem WB_bceLoop (start : Nat) {c : Prog} (hc : WB c) : ∀ items i, WB (bceLoop start items i c)
  | [], _ => hc
  | e :: es, i => (WB_createEdgeFrom _ e.a e.b e.d e.ty e.v).bind (fun _ => WB_bceLoop start hc es (i + 1))

theorem WB_bceValidate {c : Prog} (hc : WB c) : ∀ items idx, WB (bceValidate items idx c)
  | [], _ => hc
  | e :: es, idx => by
    refine .ex _ _ (fun oka => ?_)
    cases oka
    · exact .done _
    · refine .ex _ _ (fun okb => ?_)
      cases okb
      · exact .done _
      · exact WB_bceValidate hc es (idx + 1)

theorem WB_bdeLoop : ∀ es idx del fl, WB (bdeLoop es idx del fl)
  | [], _, _, _ => .done _
  | e :: es, idx, del, fl => by
    refine (WB_deleteEdgeProg e).bind (fun r => ?_)
    cases r <;> exact WB_bdeLoop es _ _ _

theorem WB_bdnLoop : ∀ ns idx del fl, WB (bdnLoop ns idx del fl)
  | [], _, _, _ => .done _
  | (n, hint) :: ns, idx, del, fl => by
    refine (WB_deleteNodeProgT _ n hint).bind (fun r => ?_)
    cases r <;> exact WB_bdnLoop ns _ _ _

theorem WB_bunLoop : ∀ us cnt, WB (bunLoop us cnt)
  | [], _ => .done _
  | (id, lab, v) :: us, cnt => by
    refine (WB_updateNodeProg id lab v).bind (fun r => ?_)
    cases r <;> exact WB_bunLoop us _

theorem WB_bunValidate {c : Prog} (hc : WB c) : ∀ us idx, WB (bunValidate us idx c)
  | [], _ => hc
  | (id, _, _) :: us, idx => by
    refine .get _ _ (fun v => ?_) (fun hk => by simp [Key.isList] at hk)
    cases v with
    | none => exact .done _
    | some _ => exact WB_bunValidate hc us (idx + 1)

/-- EVERY operation of the model, with any arguments: every list write-back is inside a lock section -/
theorem all_ops_WB (op : Op) : WB op.prog := by
  cases op with
  | createNode l v => exact .allocN _ (fun id => WB_createNodeFrom id l v)
  | createEdge a b d ty v => exact WB_createEdgeProg a b d ty v
  | deleteEdge e => exact WB_deleteEdgeProg e
  | deleteNode n h => exact WB_deleteNodeProgT _ n h
  | updateNode n l v => exact WB_updateNodeProg n l v
  | updateEdge e v => exact WB_updateEdgeProg e v
  | addLabel n l => exact WB_addLabelProg n l
  | removeLabel n l => exact WB_removeLabelProg n l
  | batchCreateNodes items =>
    simp only [Op.prog, batchCreateNodesProg]
    split
    · exact .done _
    · exact .allocNs _ _ (fun start => WB_bcnLoop start (.done _) items 0)
  | batchCreateEdges items =>
    simp only [Op.prog, batchCreateEdgesProg]
    split
    · exact .done _
    · exact WB_bceValidate (.allocEs _ _ (fun start => WB_bceLoop start (.done _) items 0)) items 0
  | batchDeleteEdges ids => exact WB_bdeLoop ids 0 [] []
  | batchDeleteNodes ids => exact WB_bdnLoop ids 0 [] []
  | batchUpdateNodes us => exact WB_bunValidate (WB_bunLoop us 0) us 0

/-! ### the lock semantics: who is inside which section -/

/-- where a thread is w.r.t. the sections: outside (`none`), or inside the section of `k` (it has taken
    the lock of `k` and not released it) -/
inductive InSect : Option Key → Prog → Prop where
  | out (p : Prog) : WB p → InSect none p
  | atGet (k : Key) (f : Option Val → Prog) (c : Prog) : WB c →
      (∀ v, (f v = .rel k c ∧ NoPut k c) ∨ ∃ w, f v = .put k w (.rel k c)) → InSect (some k) (.get k f)
  | mid (k : Key) (w : Val) (c : Prog) : WB c → InSect (some k) (.put k w (.rel k c))
  | atRel (k : Key) (c : Prog) : WB c → InSect (some k) (.rel k c)

/-- between the read and the write-back of list `K` -/
def Mid (K : Key) (p : Prog) : Prop := ∃ w c, p = .put K w (.rel K c)

/-- what thread `i` (owning `own`) needs of the lock table and of the other threads -/
def Oth (owns : List (Option Key)) (i : Nat) (own : Option Key) (held : List Key) : Prop :=
  (∀ k, own = some k → k ∈ held) ∧
  (∀ j k, j ≠ i → owns[j]? = some (some k) → k ∈ held ∧ own ≠ some k)

theorem NoPut_label {K : Key} {p : Prog} (h : NoPut K p) : p.label ≠ some (.put, K) := by
  cases h <;> simp [Prog.label]
  rename_i k' v c hne
  exact hne

theorem InSect_mid {o : Option Key} {K : Key} {p : Prog} (hg : InSect o p) (hm : Mid K p) : o = some K := by
  obtain ⟨w, c, rfl⟩ := hm
  cases hg with
  | out _ h =>
    cases h with
    | put _ _ _ h' => cases h'
  | mid k w' c' _ => rfl

theorem silent_mid {K : Key} {p : Prog} (hm : Mid K p) (pf : Op → Prog) (take : Bool) (rest : List Op) (rs : List Res)
    (s : St) (held : List Key) : Cfg.silent pf take ⟨p, rest, rs, s, held⟩ = none := by
  obtain ⟨w, c, rfl⟩ := hm; rfl

theorem silent_noPut {K : Key} {p : Prog} (hn : NoPut K p) {pf : Op → Prog} {take : Bool} {rest : List Op} {rs : List Res}
    {s : St} {held : List Key} {c' : Cfg} (h : Cfg.silent pf take ⟨p, rest, rs, s, held⟩ = some c') : NoPut K c'.p := by
  cases hn with
  | get k' c => simp [Cfg.silent] at h
  | put k' v c _ => simp [Cfg.silent] at h
  | del k' c => simp [Cfg.silent] at h
  | ex k' c => simp [Cfg.silent] at h
  | acq k' c hc =>
    simp only [Cfg.silent] at h
    split at h
    · cases h
    · cases h; exact hc
  | rel k' c hc => simp [Cfg.silent] at h; subst h; exact hc
  | allocN c hc => simp [Cfg.silent] at h; subst h; exact hc _
  | allocE c hc => simp [Cfg.silent] at h; subst h; exact hc _
  | allocNs cnt c hc => simp [Cfg.silent] at h; subst h; exact hc _
  | allocEs cnt c hc => simp [Cfg.silent] at h; subst h; exact hc _

/-- one silent step of thread `i` -/
theorem silentX {owns : List (Option Key)} {i : Nat} {own : Option Key} {p : Prog} {rest : List Op} {rs : List Res}
    {s : St} {held : List Key} {take : Bool} {c' : Cfg} (hg : InSect own p) (ho : Oth owns i own held)
    (h : Cfg.silent Op.prog take ⟨p, rest, rs, s, held⟩ = some c') :
    ∃ own', InSect own' c'.p ∧ Oth owns i own' c'.held := by
  cases hg with
  | out _ hw =>
    cases hw with
    | done r =>
      cases rest with
      | nil => simp [Cfg.silent] at h
      | cons op rest' =>
        simp [Cfg.silent] at h; subst h
        exact ⟨none, .out _ (all_ops_WB op), ho⟩
    | get k c _ _ => simp [Cfg.silent] at h
    | put k v c _ => simp [Cfg.silent] at h
    | del k c _ => simp [Cfg.silent] at h
    | ex k c _ => simp [Cfg.silent] at h
    | allocN c hc => simp [Cfg.silent] at h; subst h; exact ⟨none, .out _ (hc _), ho⟩
    | allocE c hc => simp [Cfg.silent] at h; subst h; exact ⟨none, .out _ (hc _), ho⟩
    | allocNs cnt c hc => simp [Cfg.silent] at h; subst h; exact ⟨none, .out _ (hc _), ho⟩
    | allocEs cnt c hc => simp [Cfg.silent] at h; subst h; exact ⟨none, .out _ (hc _), ho⟩
    | sect k f c hc hs =>
      simp only [Cfg.silent] at h
      split at h
      · cases h
      · rename_i hcond
        cases h
        simp at hcond
        refine ⟨some k, .atGet k f c hc hs, ?_, ?_⟩
        · intro k' hk'; cases hk'; simp
        · intro j k2 hj hk2
          obtain ⟨h1, _⟩ := ho.2 j k2 hj hk2
          refine ⟨by simp [h1], ?_⟩
          rintro hh; cases hh
          exact hcond.2 h1
  | atGet k f c _ _ => simp [Cfg.silent] at h
  | mid k w c _ => simp [Cfg.silent] at h
  | atRel k c hc =>
    simp [Cfg.silent] at h; subst h
    refine ⟨none, .out _ hc, (by intro k' hk'; cases hk'), ?_⟩
    intro j k2 hj hk2
    obtain ⟨h1, h2⟩ := ho.2 j k2 hj hk2
    refine ⟨?_, by simp⟩
    simp only [List.mem_filter, h1, true_and]
    simp
    rintro rfl; exact h2 rfl

/-- one store call of thread `i`: it stays where it is w.r.t. the sections; after a `get` of a list key
    it is between the read and the write-back of that list, or its next store call is not a `put` of it -/
theorem storeX {own : Option Key} {p : Prog} (hg : InSect own p) (hlab : p.label.isSome = true) (s : St) :
    InSect own (p.step s).1 ∧ ∀ K, K.isList = true → p.label = some (.get, K) → Mid K (p.step s).1 ∨ NoPut K (p.step s).1 := by
  cases hg with
  | out _ hw =>
    cases hw with
    | done r => exact ⟨.out _ (.done r), fun K _ hl => by simp [Prog.label] at hl⟩
    | get k c hc hn =>
      refine ⟨.out _ (hc _), fun K hK hl => ?_⟩
      simp [Prog.label] at hl; subst hl
      exact Or.inr (hn hK _)
    | put k v c hc => exact ⟨.out _ hc, fun K _ hl => by simp [Prog.label] at hl⟩
    | del k c hc => exact ⟨.out _ (hc _), fun K _ hl => by simp [Prog.label] at hl⟩
    | ex k c hc => exact ⟨.out _ (hc _), fun K _ hl => by simp [Prog.label] at hl⟩
    | allocN c hc => exact ⟨.out _ (hc _), fun K _ hl => by simp [Prog.label] at hl⟩
    | allocE c hc => exact ⟨.out _ (hc _), fun K _ hl => by simp [Prog.label] at hl⟩
    | allocNs cnt c hc => exact ⟨.out _ (hc _), fun K _ hl => by simp [Prog.label] at hl⟩
    | allocEs cnt c hc => exact ⟨.out _ (hc _), fun K _ hl => by simp [Prog.label] at hl⟩
    | sect k f c hc hs => simp [Prog.label] at hlab
  | atGet k f c hc hs =>
    simp only [Prog.step]
    rcases hs (s.kv k) with ⟨h1, h2⟩ | ⟨w, h1⟩
    · rw [h1]
      refine ⟨.atRel k c hc, fun K _ hl => ?_⟩
      simp [Prog.label] at hl; subst hl
      exact Or.inr (.rel _ _ h2)
    · rw [h1]
      refine ⟨.mid k w c hc, fun K _ hl => ?_⟩
      simp [Prog.label] at hl; subst hl
      exact Or.inl ⟨w, c, rfl⟩
  | mid k w c hc => exact ⟨.atRel k c hc, fun K _ hl => by simp [Prog.label] at hl⟩
  | atRel k c hc => simp [Prog.label] at hlab

theorem settleX {owns : List (Option Key)} {i : Nat} (take : Bool) (fuel : Nat) :
    ∀ (own : Option Key) (p : Prog) (rest : List Op) (rs : List Res) (s : St) (held : List Key),
      InSect own p → Oth owns i own held →
      (∃ own', InSect own' (settle Op.prog take fuel ⟨p, rest, rs, s, held⟩).p ∧
        Oth owns i own' (settle Op.prog take fuel ⟨p, rest, rs, s, held⟩).held) ∧
      ∀ K, (Mid K p ∨ NoPut K p) → (Mid K (settle Op.prog take fuel ⟨p, rest, rs, s, held⟩).p ∨
        NoPut K (settle Op.prog take fuel ⟨p, rest, rs, s, held⟩).p) := by
  induction fuel with
  | zero => intro own p rest rs s held hg ho; exact ⟨⟨own, hg, ho⟩, fun K h => h⟩
  | succ fuel ih =>
    intro own p rest rs s held hg ho
    simp only [settle]
    cases h : Cfg.silent Op.prog take ⟨p, rest, rs, s, held⟩ with
    | none => exact ⟨⟨own, hg, ho⟩, fun K h => h⟩
    | some c' =>
      obtain ⟨own1, g1, o1⟩ := silentX hg ho h
      have hc : c' = ⟨c'.p, c'.rest, c'.rs, c'.s, c'.held⟩ := rfl
      simp only
      rw [hc]
      obtain ⟨r1, r2⟩ := ih own1 c'.p c'.rest c'.rs c'.s c'.held g1 o1
      refine ⟨r1, fun K hK => r2 K ?_⟩
      rcases hK with hm | hn
      · rw [silent_mid hm] at h; cases h
      · exact Or.inr (silent_noPut hn h)

/-- the invariant of the system -/
structure XI (owns : List (Option Key)) (ts : List Thread) (held : List Key) : Prop where
  len : owns.length = ts.length
  good : ∀ (i : Nat) (t : Thread) (o : Option Key) (p : Prog), ts[i]? = some t → owns[i]? = some o → t.cur = some p → InSect o p
  start : ∀ (i : Nat) (t : Thread) (o : Option Key), ts[i]? = some t → owns[i]? = some o → t.cur = none → o = none ∧ t.trace = []
  heldOf : ∀ (i : Nat) (k : Key), owns[i]? = some (some k) → k ∈ held
  excl : ∀ (i j : Nat) (k : Key), i ≠ j → owns[i]? = some (some k) → owns[j]? ≠ some (some k)
  m3 : ∀ (i : Nat) (t : Thread) (K : Key) (p : Prog), ts[i]? = some t → K.isList = true →
    t.trace.head? = some (.get, K) → t.cur = some p → Mid K p ∨ NoPut K p

theorem getO_set {owns : List (Option Key)} {i : Nat} (hi : i < owns.length) (o' : Option Key) (j : Nat) :
    (owns.set i o')[j]? = if j = i then some o' else owns[j]? := by
  rw [List.getElem?_set]
  by_cases h : j = i
  · subst h; simp [hi]
  · have : ¬ i = j := fun hh => h hh.symm
    simp [h, this]

theorem getT_set {ts : List Thread} {i : Nat} (hi : i < ts.length) (t' : Thread) (j : Nat) :
    (ts.set i t')[j]? = if j = i then some t' else ts[j]? := by
  rw [List.getElem?_set]
  by_cases h : j = i
  · subst h; simp [hi]
  · have : ¬ i = j := fun hh => h hh.symm
    simp [h, this]

/-- thread `i` moved to `t'` owning `own'`, the lock table is `held'` -/
theorem XI.update {owns : List (Option Key)} {ts : List Thread} {held : List Key} (hX : XI owns ts held)
    {i : Nat} (hi : i < ts.length) (t' : Thread) (own' : Option Key) (held' : List Key)
    (hg : ∀ p, t'.cur = some p → InSect own' p) (hs : t'.cur = none → own' = none ∧ t'.trace = [])
    (ho : Oth owns i own' held')
    (hm : ∀ K p, K.isList = true → t'.trace.head? = some (.get, K) → t'.cur = some p → Mid K p ∨ NoPut K p) :
    XI (owns.set i own') (ts.set i t') held' := by
  have hio : i < owns.length := hX.len ▸ hi
  refine ⟨by simp [hX.len], ?_, ?_, ?_, ?_, ?_⟩
  · intro j t o p ht hoj hc
    rw [getT_set hi] at ht; rw [getO_set hio] at hoj
    by_cases hji : j = i
    · simp [hji] at ht hoj; subst ht; subst hoj; exact hg p hc
    · simp [hji] at ht hoj; exact hX.good j t o p ht hoj hc
  · intro j t o ht hoj hc
    rw [getT_set hi] at ht; rw [getO_set hio] at hoj
    by_cases hji : j = i
    · simp [hji] at ht hoj; subst ht; subst hoj; exact hs hc
    · simp [hji] at ht hoj; exact hX.start j t o ht hoj hc
  · intro j k hoj
    rw [getO_set hio] at hoj
    by_cases hji : j = i
    · simp [hji] at hoj; exact ho.1 k hoj
    · simp [hji] at hoj; exact (ho.2 j k hji hoj).1
  · intro a b k hab ha hb
    rw [getO_set hio] at ha hb
    by_cases hai : a = i
    · have hbi : b ≠ i := fun h => hab (hai.trans h.symm)
      simp [hai] at ha; simp [hbi] at hb
      exact (ho.2 b k hbi hb).2 ha
    · simp [hai] at ha
      by_cases hbi : b = i
      · simp [hbi] at hb
        exact (ho.2 a k hai ha).2 hb
      · simp [hbi] at hb
        exact hX.excl a b k hab ha hb
  · intro j t K p ht hK htr hc
    rw [getT_set hi] at ht
    by_cases hji : j = i
    · simp [hji] at ht; subst ht; exact hm K p hK htr hc
    · simp [hji] at ht; exact hX.m3 j t K p ht hK htr hc

theorem XI.oth {owns : List (Option Key)} {ts : List Thread} {held : List Key} (hX : XI owns ts held)
    {i : Nat} {o : Option Key} (ho : owns[i]? = some o) : Oth owns i o held := by
  refine ⟨fun k hk => hX.heldOf i k (by rw [ho, hk]), fun j k hj hk => ⟨hX.heldOf j k hk, ?_⟩⟩
  rintro rfl
  exact hX.excl i j k (fun h => hj h.symm) ho hk

/-- one scheduler grant -/
theorem turnX {owns : List (Option Key)} {ts : List Thread} {held : List Key} (hX : XI owns ts held)
    {i : Nat} {t : Thread} (ht : ts[i]? = some t) (s : St) :
    ∃ own', XI (owns.set i own') (ts.set i (t.turn Op.prog s held).1) (t.turn Op.prog s held).2.2 := by
  have hi : i < ts.length := by
    rcases Nat.lt_or_ge i ts.length with h | h
    · exact h
    · rw [List.getElem?_eq_none h] at ht; cases ht
  have hio : i < owns.length := hX.len ▸ hi
  have ho : owns[i]? = some owns[i] := List.getElem?_eq_getElem hio
  have hoth := hX.oth ho
  cases hc : t.cur with
  | none =>
    obtain ⟨hon, htr⟩ := hX.start i t _ ht ho hc
    rw [hon] at hoth
    simp only [Thread.turn, hc]
    cases hr : t.rest with
    | nil =>
      refine ⟨none, hX.update hi _ none held ?_ (by simp) hoth ?_⟩
      · intro p hp; simp at hp; subst hp; exact .out _ (.done _)
      · intro K p _ htr'; simp [htr] at htr'
    | cons op rest =>
      simp only
      obtain ⟨⟨own', g', o'⟩, _⟩ := settleX (owns := owns) (i := i) false SETTLE_FUEL none op.prog rest t.results s held
        (.out _ (all_ops_WB op)) hoth
      refine ⟨own', hX.update hi _ own' _ ?_ (by simp) o' ?_⟩
      · intro p hp; simp at hp; subst hp; exact g'
      · intro K p _ htr'; simp [htr] at htr'
  | some p =>
    have hg := hX.good i t _ p ht ho hc
    simp only [Thread.turn, hc]
    obtain ⟨⟨own0, g0, o0⟩, m0⟩ := settleX (owns := owns) (i := i) true SETTLE_FUEL owns[i] p t.rest t.results s held hg hoth
    generalize settle Op.prog true SETTLE_FUEL ⟨p, t.rest, t.results, s, held⟩ = c0 at g0 o0 m0
    cases hl : c0.p.label with
    | none =>
      refine ⟨own0, hX.update hi _ own0 _ ?_ (by simp) o0 ?_⟩
      · intro q hq; simp at hq; subst hq; exact g0
      · intro K q hK htr' hq
        simp at hq; subst hq
        exact m0 K (hX.m3 i t K p ht hK htr' hc)
    | some lab =>
      simp only
      obtain ⟨g1, m1⟩ := storeX g0 (by simp [hl]) c0.s
      obtain ⟨⟨own2, g2, o2⟩, m2⟩ := settleX (owns := owns) (i := i) false SETTLE_FUEL own0 (c0.p.step c0.s).1 c0.rest c0.rs
        (c0.p.step c0.s).2 c0.held g1 o0
      refine ⟨own2, hX.update hi _ own2 _ ?_ (by simp) o2 ?_⟩
      · intro q hq; simp at hq; subst hq; exact g2
      · intro K q hK htr' hq
        simp at hq htr'; subst hq
        exact m2 K (m1 K hK (by rw [hl, htr']))

theorem runX (sched : List Nat) (s : St) :
    ∀ (owns : List (Option Key)) (ts : List Thread) (held : List Key), XI owns ts held →
      ∃ owns', XI owns' (runThreads Op.prog ts sched s held).1 (runThreads Op.prog ts sched s held).2.2 := by
  induction sched generalizing s with
  | nil => intro owns ts held hX; exact ⟨owns, hX⟩
  | cons i sched ih =>
    intro owns ts held hX
    simp only [runThreads]
    cases hti : ts[i]? with
    | none => exact ih s owns ts held hX
    | some t =>
      simp only
      obtain ⟨own', hX'⟩ := turnX hX hti s
      rw [setAt_eq_set]
      exact ih _ _ _ _ hX'

/-- thread `t` has read list `K` and is about to write it back (its last store call was `store.get K`,
    its next one is `store.put K`) -/
def Thread.inRmw (t : Thread) (K : Key) : Prop :=
  K.isList = true ∧ t.trace.head? = some (Site.get, K) ∧ t.cur.bind Prog.label = some (Site.put, K)

instance (t : Thread) (K : Key) : Decidable (t.inRmw K) := by unfold Thread.inRmw; infer_instance

theorem rmw_exclusive (s0 : St) (programs : List (List Op)) (sched : List Nat) (i j : Nat) (ti tj : Thread) (K : Key)
    (hij : i ≠ j) (hi : (runSched programs sched s0).1[i]? = some ti) (hj : (runSched programs sched s0).1[j]? = some tj)
    (h1 : ti.inRmw K) : ¬ tj.inRmw K := by
  intro h2
  have hX0 : XI (List.replicate programs.length none) (programs.map Thread.ofOps) [] := by
    have hrep : ∀ (a : Nat) (o : Option Key), (List.replicate programs.length (none : Option Key))[a]? = some o → o = none := by
      intro a o ha
      rw [List.getElem?_replicate] at ha
      split at ha
      · cases ha; rfl
      · cases ha
    have hof : ∀ (a : Nat) (t : Thread), (programs.map Thread.ofOps)[a]? = some t → t.cur = none ∧ t.trace = [] := by
      intro a t ha
      rw [List.getElem?_map] at ha
      cases hp : programs[a]? with
      | none => simp [hp] at ha
      | some ops => simp [hp] at ha; subst ha; exact ⟨rfl, rfl⟩
    refine ⟨by simp, ?_, ?_, ?_, ?_, ?_⟩
    · intro a t o p ht _ hc; rw [(hof a t ht).1] at hc; cases hc
    · intro a t o ht ho _; exact ⟨hrep a o ho, (hof a t ht).2⟩
    · intro a k ha; cases hrep a _ ha
    · intro a b k _ ha; cases hrep a _ ha
    · intro a t K p ht _ _ hc; rw [(hof a t ht).1] at hc; cases hc
  obtain ⟨owns, hX⟩ := runX sched s0 _ _ _ hX0
  have key : ∀ (a : Nat) (t : Thread), (runThreads Op.prog (programs.map Thread.ofOps) sched s0 []).1[a]? = some t →
      t.inRmw K → owns[a]? = some (some K) := by
    intro a t ha ⟨hK, htr, hl⟩
    cases hc : t.cur with
    | none => simp [hc] at hl
    | some p =>
      simp [hc] at hl
      have hlt : a < owns.length := by
        rw [hX.len]
        rcases Nat.lt_or_ge a (runThreads Op.prog (programs.map Thread.ofOps) sched s0 []).1.length with h | h
        · exact h
        · rw [List.getElem?_eq_none h] at ha; cases ha
      have ho : owns[a]? = some owns[a] := List.getElem?_eq_getElem hlt
      rcases hX.m3 a t K p ha hK htr hc with hm | hn
      · rw [ho, InSect_mid (hX.good a t _ p ha ho hc) hm]
      · exact absurd hl (NoPut_label hn)
  exact hX.excl i j K hij (key i ti hi h1) (key j tj hj h2)

end Neumann.Graph
